----------------------------- MODULE Trace_Grammar -----------------------------
(***************************************************************************)
(* Trace validation for C06 C07 C08 (and the API part of C09): one         *)
(* behaviour per recorded treebank / grammar case; events                  *)
(*   extract(tree)  : the whole grammar and lexicon dicts after the call   *)
(*   setgram        : a grammar given directly (enumerated rules)          *)
(*   binarize(mode) : the binarized grammar                                *)
(* The state holds the implementation's own grammar (adopted after every   *)
(* event) plus the spec's accumulators (node label counts, root labels,    *)
(* reference grammar and lexicon).                                         *)
(***************************************************************************)
EXTENDS GrammarFiles, Json, IOUtils
Doc   == JsonDeserialize(IOEnv.TRACE_FILE)
Cases == Doc.cases
VARIABLES tid, l, gram, lex, ref, errs, done
Case == Cases[tid]

\* logged grammar: sequence of [func, lin, vert, cnt]; lin elements are <<i, k>>
GramOf(s) == [r \in {[func |-> s[i].func, lin |-> s[i].lin, vert |-> s[i].vert] : i \in 1..Len(s)} |->
                SumOver({i \in 1..Len(s) : [func |-> s[i].func, lin |-> s[i].lin, vert |-> s[i].vert] = r},
                        LAMBDA i : s[i].cnt)]
OutOf(s) == [g \in {[func |-> s[i].func, lin |-> s[i].lin] : i \in 1..Len(s)} |->
               SumOver({i \in 1..Len(s) : [func |-> s[i].func, lin |-> s[i].lin] = g}, LAMBDA i : s[i].cnt)]
LexOf(s) == [e \in {<<s[i][1], s[i][2]>> : i \in 1..Len(s)} |->
               SumOver({i \in 1..Len(s) : <<s[i][1], s[i][2]>> = e}, LAMBDA i : s[i][3])]
NoDupKeys(s, key(_)) == \A i, j \in 1..Len(s) : i # j => key(s[i]) # key(s[j])
ModeOf(m) == [reorder |-> m.reorder, markov |-> (m.markov = "T"), v |-> m.v, h |-> m.h,
              nofanout |-> (m.nofanout = "T")]

Ref0 == [gram |-> EmptyBag, lex |-> EmptyBag, nodecnt |-> EmptyBag, roots |-> EmptyBag,
         allcont |-> TRUE, fromtrees |-> TRUE]
ProjBag(b, f(_)) == [k \in {f(r) : r \in DOMAIN b} |-> SumOver({r \in DOMAIN b : f(r) = k}, LAMBDA r : b[r])]

ExtractErrs(e, T, r2) ==
  LET G == GramOf(e.gram)  L == LexOf(e.lex) IN
  F("C06.one_rule_per_node", BagTotal(G) = BagTotal(r2.gram)) \cup
  F("C06.func", ProjBag(G, LAMBDA r : r.func) = ProjBag(r2.gram, LAMBDA r : r.func)) \cup
  F("C06.lin_instantiates", ProjBag(G, LAMBDA r : <<r.func, r.lin>>) = ProjBag(r2.gram, LAMBDA r : <<r.func, r.lin>>)) \cup
  F("C06.vert", G = r2.gram) \cup
  F("C06.counts", LhsTotals(SumVert(G), r2.nodecnt)) \cup
  F("C06.lexicon", L = r2.lex) \cup
  F("C06.fanout", \A i \in 1..Len(e.fo) : e.fo[i][2] = FanOutOf(e.fo[i][1])) \cup
  F("C06.contextfree_iff_continuous", (e.cf = "T") <=> r2.allcont) \cup
  F("C08.flow", Flow(SumVert(G), L, r2.roots)) \cup
  F("C08.lhs_totals", LhsTotals(SumVert(G), r2.nodecnt))

TInit == /\ tid \in 1..Len(Cases) /\ l = 0 /\ done = FALSE
         /\ gram = EmptyBag /\ lex = EmptyBag /\ ref = Ref0 /\ errs = {}

IsEvent(name) == ~done /\ l < Len(Case.events) /\ Case.events[l + 1].a = name /\ l' = l + 1
TExtract ==
  /\ IsEvent("extract")
  /\ LET e == Case.events[l + 1] IN
     IF e.res # "ok" \/ ~WF(e.tree)
     THEN errs' = errs \cup {<<"C06.raised", l + 1>>} /\ UNCHANGED <<gram, lex, ref>>
     ELSE LET T == Abs(e.tree)
              r2 == [gram |-> ref.gram (+) RefRules(T), lex |-> ref.lex (+) RefLex(T),
                     nodecnt |-> ref.nodecnt (+) NodeLabelBag(T),
                     roots |-> BagAdd(ref.roots, Root(T).a.lab, 1),
                     allcont |-> ref.allcont /\ GapDeg(T) = 0, fromtrees |-> ref.fromtrees]
          IN /\ errs' = errs \cup {<<c, l + 1>> : c \in ExtractErrs(e, T, r2)}
             /\ ref' = r2 /\ gram' = GramOf(e.gram) /\ lex' = LexOf(e.lex)
  /\ UNCHANGED <<tid, done>>
TSetGram ==
  /\ IsEvent("setgram")
  /\ gram' = GramOf(Case.events[l + 1].gram)
  /\ lex' = IF "keeplex" \in DOMAIN Case.events[l + 1] THEN lex ELSE EmptyBag
  \* (keeplex: the grammar set is the binarization of the extracted one - still the grammar of these trees)
  /\ ref' = [ref EXCEPT !.fromtrees = @ /\ "keeplex" \in DOMAIN Case.events[l + 1]]
  /\ UNCHANGED <<tid, errs, done>>
\* a run for one property need not evaluate the (expensive: chain composition search) clauses of another:
\* the driver says which properties it judges; without that, everything is evaluated
Wants(p) == ("props" \notin DOMAIN Case) \/ (\E i \in 1..Len(Case.props) : Case.props[i] = p)
TBinarize ==
  /\ IsEvent("binarize")
  /\ LET e == Case.events[l + 1]  m == ModeOf(e.mode) IN
     errs' = errs \cup
       (IF e.res # "ok" THEN {<<"C07.raised", l + 1>>}
        ELSE {<<c, l + 1>> : c \in
               F("C07.out_keys_unique", NoDupKeys(e.out, LAMBDA x : <<x.func, x.lin>>)) \cup
               (IF Wants("C07") THEN C07(gram, OutOf(e.out), m) ELSE {}) \cup
               (IF ref.fromtrees /\ Wants("C08") THEN C08(gram, OutOf(e.out), m, lex, ref.roots, ref.nodecnt) ELSE {})})
  /\ UNCHANGED <<tid, gram, lex, ref, done>>

\* ---- grammar files (C09) ----
SetOfSeq(s) == {s[i] : i \in 1..Len(s)}
LexRuleBag(lx) == [g \in {[func |-> <<e[2], e[1]>>, lin |-> << << <<0, 0>> >> >>] : e \in DOMAIN lx} |->
                     SumOver({e \in DOMAIN lx : g.func = <<e[2], e[1]>>}, LAMBDA e : lx[e])]
\* C08 on what is written: the counts a reader of the file obtains (function names resolve to one rule each)
\* are conserved like those of the grammar in memory
FileCounts(Gdec) ==
  IF ~ref.fromtrees THEN {}
  ELSE F("C08.written.lhs_totals", LhsTotals(Gdec, ref.nodecnt)) \cup
       F("C08.written.flow", Flow(Gdec, lex, ref.roots))
\* with the lexicon embedded, a tag is rewritten by its lexical productions as well: per label, the rules of the
\* file sum to the constituents with that label plus the tokens with that tag (also when a word is spelled
\* like a category and its lexical production coincides with a rule)
FileCountsLig(Gdec) ==
  IF ~ref.fromtrees THEN {}
  ELSE F("C08.written.lhs_totals",
         \A s \in DOMAIN ref.nodecnt \cup {e[2] : e \in DOMAIN lex} :
            SumOver({g \in DOMAIN Gdec : g.func[1] = s}, LAMBDA g : Gdec[g]) = BagGet(ref.nodecnt, s) + LexTag(lex, s))
WriteErrs(e) ==
  LET G == SumVert(gram)
      lig == e.lig = "T"
      Gexp == IF lig THEN G (+) LexRuleBag(lex) ELSE G
      words == SetOfSeq(e.words)
      Syms == Symbols(DOMAIN Gexp)
  IN
  IF e.fmt = "lopar" THEN
     F("C09.lopar.refuses_lcfrs", (e.res = "exc") <=> ~IsContextFree(gram)) \cup
     (IF e.res = "ok" THEN
        F("C09.lopar.gram", DecodeLoparGram(e.files.gram) = NormCFBag(G)) \cup
        FileCounts(DecodeLoparGram(e.files.gram)) \cup
        F("C09.lex.counts", LexWF(e.files.lex) /\ DecodeLex(e.files.lex) = lex) \cup
        F("C09.lopar.start", DecodePairs(e.files.start) = StartSyms(G)) \cup
        F("C09.lopar.oc", DecodePairs(e.files.oc) = OcBag(lex, SetOfSeq(e.caps), FALSE)) \cup
        F("C09.lopar.OC", DecodePairs(e.files.OC) = OcBag(lex, SetOfSeq(e.caps), TRUE))
      ELSE {})
  ELSE IF e.res # "ok" THEN {"C09.raised." \o e.fmt}
  ELSE IF e.fmt = "pmcfg" THEN
     F("C09.pmcfg.wellformed", PmcfgWF(e.files.pmcfg)) \cup
     (IF PmcfgWF(e.files.pmcfg) THEN
        F("C09.pmcfg.decodes", DecodePMCFG(e.files.pmcfg) = Gexp) \cup
        (IF lig THEN FileCountsLig(DecodePMCFG(e.files.pmcfg)) ELSE FileCounts(DecodePMCFG(e.files.pmcfg))) \cup
        (IF lig /\ words \cap Symbols(DOMAIN G) = {} THEN F("C09.lex_in_grammar",
                       /\ LexFromGram(DecodePMCFG(e.files.pmcfg), words) = lex
                       /\ WithoutLex(DecodePMCFG(e.files.pmcfg), words) = G)
         ELSE {})
      ELSE (IF ref.fromtrees THEN {"C08.written.lhs_totals"} ELSE {})) \cup    \* no well-defined counts at all
     (IF lig THEN {} ELSE F("C09.lex.counts", LexWF(e.files.lex) /\ DecodeLex(e.files.lex) = lex))
  ELSE \* rcg
     F("C09.rcg.wellformed", RcgWF(e.files.rcg) /\ \A i \in Idx(e.files.rcg) : RcgVarsOK(e.files.rcg[i])) \cup
     (IF RcgWF(e.files.rcg) /\ \A i \in Idx(e.files.rcg) : RcgVarsOK(e.files.rcg[i])
      THEN F("C09.rcg.decodes", DecodeRCG(Syms, e.files.rcg) = Gexp) \cup
           (IF lig THEN FileCountsLig(DecodeRCG(Syms, e.files.rcg)) ELSE FileCounts(DecodeRCG(Syms, e.files.rcg)))
      ELSE {}) \cup
     (IF lig THEN {} ELSE F("C09.lex.counts", LexWF(e.files.lex) /\ DecodeLex(e.files.lex) = lex))
TWrite == /\ IsEvent("write")
          /\ errs' = errs \cup {<<c, l + 1>> : c \in WriteErrs(Case.events[l + 1])}
          /\ UNCHANGED <<tid, gram, lex, ref, done>>
TReadRcg ==
  /\ IsEvent("read_rcg")
  /\ LET e == Case.events[l + 1] IN
     errs' = errs \cup {<<c, l + 1>> : c \in
       IF e.res # "ok" THEN {"C09.rcg.reader_raised"}
       ELSE F("C09.rcg.reader_roundtrip",
              /\ ProjBag(GramOf(e.gram), LAMBDA r : [func |-> r.func, lin |-> r.lin]) = SumVert(gram)
              /\ LexOf(e.lex) = lex)}
  /\ UNCHANGED <<tid, gram, lex, ref, done>>
TCli ==
  /\ IsEvent("cli")
  /\ LET e == Case.events[l + 1] IN
     errs' = errs \cup {<<c, l + 1>> : c \in
       F("C09.cli.exit0", e.rc = 0) \cup
       (IF e.rc = 0 THEN
          F(IF e.src = "rcg" THEN "C09.cli_grammar_input_not_empty" ELSE "C09.cli_extract",
            PmcfgWF(e.files.pmcfg) /\ DecodePMCFG(e.files.pmcfg) = SumVert(gram)) \cup
          F("C09.cli.lex", LexWF(e.files.lex) /\ DecodeLex(e.files.lex) = lex)
        ELSE {})}
  /\ UNCHANGED <<tid, gram, lex, ref, done>>
TDone == /\ ~done /\ l = Len(Case.events) /\ done' = TRUE
         /\ PrintT("VERDICT " \o ToJson(
              [id |-> Case.id, steps |-> l, failed |-> errs, tags |-> {Case.tags[i] : i \in 1..Len(Case.tags)},
               nontrivial |-> (\E r \in DOMAIN gram : gram[r] > 1 \/ Len(r.lin) > 1 \/ RankOf(r.func) > 2)]))
         /\ UNCHANGED <<tid, l, gram, lex, ref, errs>>
TNext == TExtract \/ TSetGram \/ TBinarize \/ TWrite \/ TReadRcg \/ TCli \/ TDone
=============================================================================

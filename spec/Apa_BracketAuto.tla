-------------------------- MODULE Apa_BracketAuto --------------------------
(***************************************************************************)
(* Symbolic check (Apalache) that BracketAbs!AInv is an inductive          *)
(* invariant of the abstract bracket automaton: it holds initially         *)
(* (Init, length 0) and is preserved by every step from ANY state that     *)
(* satisfies it (IndInit, length 1) - hence after token sequences of       *)
(* every length, for every first sentence id.  NotInv (the terminal        *)
(* counter is always 1) must be refuted: non-vacuity.                      *)
(***************************************************************************)
EXTENDS Integers, BracketAbs
VARIABLES
  \* @type: $astate;
  a,
  \* @type: Bool;
  emptypos,
  \* @type: Int;
  firstid
Classes == {"LRB", "RRB", "WS", "TOKEN"}
Init == firstid \in Int /\ emptypos \in BOOLEAN /\ a = A0(firstid)
Next == /\ \E c \in Classes : a' = AStep(a, c, emptypos)
        /\ UNCHANGED <<emptypos, firstid>>
IndInv == AInv(a, firstid)
IndInit ==
  /\ firstid \in Int /\ emptypos \in BOOLEAN
  /\ \E s \in {0, 1, 2, 3, 4, 5, 9} : \E lv \in Nat : \E tc \in Int : \E cn \in Int : \E no \in Nat : \E e \in BOOLEAN :
        a = [state |-> s, level |-> lv, termCnt |-> tc, cnt |-> cn, nout |-> no, err |-> e]
  /\ IndInv
NotInv == a.termCnt = 1
============================================================================

-------------------------------- MODULE Split --------------------------------
(***************************************************************************)
(* Output splitting (treeoutput.parse_split_specification and the split    *)
(* branch of transform.run), property C17.                                 *)
(* A specification is a sequence of part records                           *)
(*   [k |-> "pct", n] | [k |-> "abs", n] | [k |-> "rest", n |-> 0]         *)
(*   | [k |-> "bad", n |-> 0]   (anything else: "x#", "5", "1.5%", "")     *)
(* The parser is a state machine: one action per part, then Finalize.      *)
(* Arithmetic is over exact integers: a percentage is floor(p*size/100).   *)
(***************************************************************************)
EXTENDS Integers, Sequences, FiniteSets, SequencesExt, FiniteSetsExt, TLC
CONSTANT
  \* @type: Set(Str);
  Dev

\* @type: (Seq(Int)) => Int;
SumSeq(s) == FoldLeft(LAMBDA a, b : a + b, 0, s)
\* @type: (Seq(Int)) => Int;
MaxOf(s) == CHOOSE m \in {s[i] : i \in DOMAIN s} : \A j \in DOMAIN s : s[j] <= m
\* @type: (Seq(Int)) => Int;
FirstMax(s) == CHOOSE i \in DOMAIN s : s[i] = MaxOf(s) /\ \A j \in DOMAIN s : j < i => s[j] < MaxOf(s)

\* parser state
\* @type: {parts: Seq(Int), rest: Int, rejected: Bool};
P0 == [parts |-> <<>>, rest |-> 0, rejected |-> FALSE]
\* @type: ({parts: Seq(Int), rest: Int, rejected: Bool}) => {parts: Seq(Int), rest: Int, rejected: Bool};
Reject(st) == [st EXCEPT !.rejected = TRUE]
NegOK == "split_negative_accepted" \in Dev
\* @type: ({parts: Seq(Int), rest: Int, rejected: Bool}, Int, Int) => {parts: Seq(Int), rest: Int, rejected: Bool};
PartPercent(st, p, size) == IF p < 0 /\ ~NegOK THEN Reject(st)
                            ELSE [st EXCEPT !.parts = Append(@, (p * size) \div 100)]
\* @type: ({parts: Seq(Int), rest: Int, rejected: Bool}, Int) => {parts: Seq(Int), rest: Int, rejected: Bool};
PartAbsolute(st, n)      == IF n < 0 /\ ~NegOK THEN Reject(st) ELSE [st EXCEPT !.parts = Append(@, n)]
\* @type: ({parts: Seq(Int), rest: Int, rejected: Bool}) => {parts: Seq(Int), rest: Int, rejected: Bool};
PartRest(st) == IF st.rest # 0 THEN Reject(st)
                ELSE [st EXCEPT !.parts = Append(@, 0), !.rest = Len(st.parts) + 1]
\* @type: ({parts: Seq(Int), rest: Int, rejected: Bool}, {k: Str, n: Int}, Int) => {parts: Seq(Int), rest: Int, rejected: Bool};
PartStep(st, pt, size) ==
  IF st.rejected THEN st
  ELSE CASE pt.k = "pct" -> PartPercent(st, pt.n, size)
         [] pt.k = "abs" -> PartAbsolute(st, pt.n)
         [] pt.k = "rest" -> PartRest(st)
         [] OTHER -> Reject(st)
\* @type: ({parts: Seq(Int), rest: Int, rejected: Bool}, Int) => {parts: Seq(Int), rest: Int, rejected: Bool};
Finalize(st, size) ==
  IF st.rejected \/ st.parts = <<>> THEN Reject(st)
  ELSE LET s == SumSeq(st.parts) IN
       IF s > size THEN Reject(st)
       ELSE IF s = size THEN st
       ELSE IF st.rest # 0 THEN [st EXCEPT !.parts[st.rest] = size - s]
       ELSE [st EXCEPT !.parts[FirstMax(st.parts)] = @ + (size - s)]
\* @type: (Seq({k: Str, n: Int}), Int) => {parts: Seq(Int), rest: Int, rejected: Bool};
SplitParse(spec, size) == Finalize(FoldLeft(LAMBDA st, pt : PartStep(st, pt, size), P0, spec), size)

\* ---- C17 clauses on an implementation result: res \in {"ok","exc"}, parts ----
\* @type: (Seq({k: Str, n: Int})) => Bool;
Malformed(spec) ==
  \/ spec = <<>>
  \/ \E i \in DOMAIN spec : spec[i].k = "bad" \/ (spec[i].k \in {"pct", "abs"} /\ spec[i].n < 0)
  \/ Cardinality({i \in DOMAIN spec : spec[i].k = "rest"}) > 1
\* @type: ({k: Str, n: Int}, Int) => Int;
BaseOf(pt, size) == IF pt.k = "abs" THEN pt.n ELSE IF pt.k = "pct" THEN (pt.n * size) \div 100 ELSE 0
\* @type: (Seq({k: Str, n: Int}), Int) => Int;
Demand(spec, size) == FoldLeft(LAMBDA a, pt : a + BaseOf(pt, size), 0, spec)
\* @type: (Seq({k: Str, n: Int}), Int) => Bool;
MustReject(spec, size) == Malformed(spec) \/ Demand(spec, size) > size
\* @type: (Str, Bool) => Set(Str);
F(name, ok) == IF ok THEN {} ELSE {name}
\* @type: (Seq({k: Str, n: Int}), Int, Str, Seq(Int)) => Set(Str);
C17arith(spec, size, res, parts) ==
  IF MustReject(spec, size) THEN F("C17.rejects", res = "exc")
  ELSE IF res # "ok" THEN {"C17.accepts"}
  ELSE LET ref == SplitParse(spec, size).parts
           base(i) == IF spec[i].k = "abs" THEN spec[i].n
                      ELSE IF spec[i].k = "pct" THEN (spec[i].n * size) \div 100 ELSE 0
           hasRest == \E i \in 1..Len(spec) : spec[i].k = "rest"
       IN
       F("C17.nonneg", \A i \in 1..Len(parts) : parts[i] >= 0) \cup
       F("C17.sum", Len(parts) = Len(spec) /\ SumSeq(parts) = size) \cup
       F("C17.follows_spec",
         /\ Len(parts) = Len(spec)
         /\ \A i \in 1..Len(spec) :
              IF spec[i].k = "rest" THEN parts[i] = size - Demand(spec, size)
              ELSE IF hasRest THEN parts[i] = base(i)
              ELSE \/ parts[i] = base(i)
                   \/ /\ parts[i] = base(i) + (size - Demand(spec, size))
                      /\ \A j \in 1..Len(spec) : base(j) < base(i) \/ (base(j) = base(i) /\ j >= i)
         /\ parts = ref)
=============================================================================

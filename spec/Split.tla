-------------------------------- MODULE Split --------------------------------
(***************************************************************************)
(* Output splitting (treeoutput.parse_split_specification and the split    *)
(* branch of transform.run), property C17.                                 *)
(* A specification is a sequence of part records                           *)
(*   [k |-> "pct", n] | [k |-> "abs", n] | [k |-> "rest", n |-> 0]         *)
(*   | [k |-> "bad", n |-> 0]   (anything else: "x#", "5", "1.5%", "")     *)
(* The parser is a state machine: one action per part, then Finalize.      *)
(* Arithmetic is over exact integers: a percentage is floor(p*size/100).   *)
(***************************************************************************)
EXTENDS Integers, Sequences, FiniteSets, SequencesExt, FiniteSetsExt, TLC
CONSTANT Dev

SumSeq(s) == FoldLeft(LAMBDA a, b : a + b, 0, s)
MaxOf(s) == CHOOSE m \in {s[i] : i \in 1..Len(s)} : \A j \in 1..Len(s) : s[j] <= m
FirstMax(s) == CHOOSE i \in 1..Len(s) : s[i] = MaxOf(s) /\ \A j \in 1..(i - 1) : s[j] < MaxOf(s)

\* parser state
P0 == [parts |-> <<>>, rest |-> 0, rejected |-> FALSE]
Reject(st) == [st EXCEPT !.rejected = TRUE]
NegOK == "split_negative_accepted" \in Dev
PartPercent(st, p, size) == IF p < 0 /\ ~NegOK THEN Reject(st)
                            ELSE [st EXCEPT !.parts = Append(@, (p * size) \div 100)]
PartAbsolute(st, n)      == IF n < 0 /\ ~NegOK THEN Reject(st) ELSE [st EXCEPT !.parts = Append(@, n)]
PartRest(st) == IF st.rest # 0 THEN Reject(st)
                ELSE [st EXCEPT !.parts = Append(@, 0), !.rest = Len(st.parts) + 1]
PartStep(st, pt, size) ==
  IF st.rejected THEN st
  ELSE CASE pt.k = "pct" -> PartPercent(st, pt.n, size)
         [] pt.k = "abs" -> PartAbsolute(st, pt.n)
         [] pt.k = "rest" -> PartRest(st)
         [] OTHER -> Reject(st)
Finalize(st, size) ==
  IF st.rejected \/ st.parts = <<>> THEN Reject(st)
  ELSE LET s == SumSeq(st.parts) IN
       IF s > size THEN Reject(st)
       ELSE IF s = size THEN st
       ELSE IF st.rest # 0 THEN [st EXCEPT !.parts[st.rest] = size - s]
       ELSE [st EXCEPT !.parts[FirstMax(st.parts)] = @ + (size - s)]
SplitParse(spec, size) == Finalize(FoldLeft(LAMBDA st, pt : PartStep(st, pt, size), P0, spec), size)

\* ---- C17 clauses on an implementation result: res \in {"ok","exc"}, parts ----
Malformed(spec) ==
  \/ spec = <<>>
  \/ \E i \in 1..Len(spec) : spec[i].k = "bad" \/ (spec[i].k \in {"pct", "abs"} /\ spec[i].n < 0)
  \/ Cardinality({i \in 1..Len(spec) : spec[i].k = "rest"}) > 1
Demand(spec, size) == SumSeq([i \in 1..Len(spec) |->
                        IF spec[i].k = "abs" THEN spec[i].n
                        ELSE IF spec[i].k = "pct" THEN (spec[i].n * size) \div 100 ELSE 0])
MustReject(spec, size) == Malformed(spec) \/ Demand(spec, size) > size
F(name, ok) == IF ok THEN {} ELSE {name}
C17arith(spec, size, res, parts) ==
  IF MustReject(spec, size) THEN F("C17.rejects", res = "exc")
  ELSE IF res # "ok" THEN {"C17.accepts"}
  ELSE LET ref == SplitParse(spec, size).parts
           base(i) == IF spec[i].k = "abs" THEN spec[i].n
                      ELSE IF spec[i].k = "pct" THEN (spec[i].n * size) \div 100 ELSE 0
           hasRest == \E i \in 1..Len(spec) : spec[i].k = "rest"
       IN
       F("C17.nonneg", \A i \in 1..Len(parts) : parts[i] >= 0) \cup
       F("C17.sum", Len(parts) = Len(spec) /\ SumSeq(parts) = size) \cup
       F("C17.follows_spec",
         /\ Len(parts) = Len(spec)
         /\ \A i \in 1..Len(spec) :
              IF spec[i].k = "rest" THEN parts[i] = size - Demand(spec, size)
              ELSE IF hasRest THEN parts[i] = base(i)
              ELSE \/ parts[i] = base(i)
                   \/ /\ parts[i] = base(i) + (size - Demand(spec, size))
                      /\ \A j \in 1..Len(spec) : base(j) < base(i) \/ (base(j) = base(i) /\ j >= i)
         /\ parts = ref)
=============================================================================

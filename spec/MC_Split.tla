------------------------------ MODULE MC_Split ------------------------------
(* Bounded model for C17 (arithmetic): every specification of up to MaxParts *)
(* parts over the token inventory and every size 0..S, parsed one part per   *)
(* action; the clauses must hold of the reference result.  A second          *)
(* configuration (MaxParts = 1..2, percentages 0..100, realistic sizes)      *)
(* covers the integer-versus-float rounding of percentages.                  *)
EXTENDS Split, Json
CONSTANTS Tokens, Sizes, MaxParts
VARIABLES spec, size, i, st, phase
Init == /\ spec = <<>> /\ size \in Sizes /\ i = 0 /\ st = P0 /\ phase = "build"
AddPart(t) == /\ phase = "build" /\ Len(spec) < MaxParts /\ spec' = Append(spec, t)
              /\ UNCHANGED <<size, i, st, phase>>
Start == /\ phase = "build" /\ phase' = "parse" /\ UNCHANGED <<spec, size, i, st>>
Step == /\ phase = "parse" /\ i < Len(spec)
        /\ st' = PartStep(st, spec[i + 1], size) /\ i' = i + 1 /\ UNCHANGED <<spec, size, phase>>
Fin == /\ phase = "parse" /\ i = Len(spec)
       /\ st' = Finalize(st, size) /\ phase' = "done" /\ UNCHANGED <<spec, size, i>>
Next == (\E t \in Tokens : AddPart(t)) \/ Start \/ Step \/ Fin
InvC17 == phase = "done" =>
  /\ st = SplitParse(spec, size)
  /\ C17arith(spec, size, IF st.rejected THEN "exc" ELSE "ok", st.parts) = {}
  /\ (~st.rejected => \A k \in 1..Len(st.parts) : st.parts[k] >= 0)
Emit == phase = "done" => PrintT("CASE " \o ToJson([spec |-> spec, size |-> size]))
=============================================================================

------------------------------- MODULE Grammar -------------------------------
(***************************************************************************)
(* LCFRS/PMCFG grammar extraction and binarization (trees/grammar.py).     *)
(*                                                                         *)
(* A rule occurrence is [func, lin, vert]:                                 *)
(*   func = <<LHS, RHS_1, ..., RHS_r>>  (labels)                           *)
(*   lin  = << arg_1, ..., arg_f >>, arg = << <<i, k>>, ... >> meaning     *)
(*          "the k-th block of RHS element i" (both 0-based, as in code)   *)
(*   vert = the node's ancestor path, labels suffixed with fan-outs        *)
(* A grammar is a bag of rule occurrences (function rule -> count > 0),    *)
(* a lexicon a bag of <<word, tag>>.  Properties C06 C07 C08 (C09 uses the *)
(* same values).                                                           *)
(***************************************************************************)
EXTENDS TreeModel, Bags

CONSTANT Dev

NoneV == -99                     \* Python's None as a substitution result
BagAdd(b, e, n) == IF n = 0 THEN b ELSE b (+) [x \in {e} |-> n]
BagGet(b, e) == IF e \in DOMAIN b THEN b[e] ELSE 0
SumOver(S, f(_)) == FoldSet(LAMBDA e, acc : acc + f(e), 0, S)
BagTotal(b) == SumOver(DOMAIN b, LAMBDA e : b[e])
RankOf(func) == Len(func) - 1
AscSeq(S) == SortedSeq(S, LAMBDA v : v)
Compress(s) == FoldLeft(LAMBDA acc, e : IF acc # <<>> /\ acc[Len(acc)] = e THEN acc ELSE Append(acc, e),
                        <<>>, s)
Pairs(cs) == UNION {{<<b, j>> : j \in 1..Len(cs[b])} : b \in 1..Len(cs)}
Before(p, q) == p[1] < q[1] \/ (p[1] = q[1] /\ p[2] < q[2])

-----------------------------------------------------------------------------
(* extraction (C06) *)
KidIdx(ks, p) == CHOOSE i \in 1..Len(ks) : p \in ks[i].y
ExtractLin(T, x) ==
  LET ks == KidsSeq(T, x)
      bs == RunsSeq(x.y)
      cs == [b \in 1..Len(bs) |->
               Compress(LET s == AscSeq(bs[b]) IN [j \in 1..Len(s) |-> KidIdx(ks, s[j])])]
      K(b, j) == Cardinality({q \in Pairs(cs) : cs[q[1]][q[2]] = cs[b][j] /\ Before(q, <<b, j>>)})
  IN [b \in 1..Len(cs) |-> [j \in 1..Len(cs[b]) |-> <<cs[b][j] - 1, K(b, j)>>]]
Vert(T, x) ==
  LET doms == <<x>> \o SetToSortSeq(Ancs(T, x), LAMBDA u, v : u.d > v.d) IN
  [i \in 1..Len(doms) |-> doms[i].a.lab \o ToString(GapDegNode(doms[i]) + 1)]
ExtractRule(T, x) ==
  LET ks == KidsSeq(T, x) IN
  [func |-> <<x.a.lab>> \o [i \in 1..Len(ks) |-> ks[i].a.lab], lin |-> ExtractLin(T, x),
   vert |-> Vert(T, x)]
RefRules(T) == FoldSet(LAMBDA x, acc : BagAdd(acc, ExtractRule(T, x), 1), EmptyBag, CNodes(T))
RefLex(T)   == FoldSet(LAMBDA x, acc : BagAdd(acc, <<x.a.word, x.a.lab>>, 1), EmptyBag, TNodes(T))
NodeLabelBag(T) == FoldSet(LAMBDA x, acc : BagAdd(acc, x.a.lab, 1), EmptyBag, CNodes(T))

\* fan-outs: <<fan-out of the LHS, fan-out of RHS_1, ...>> (as grammaranalysis.fan_out)
RefsOf(lin) == {lin[p[1]][p[2]] : p \in Pairs(lin)}
FanOutOf(lin) ==
  LET I == {e[1] : e \in RefsOf(lin)} IN
  <<Len(lin)>> \o [i \in 1..Cardinality(I) |->
                     Cardinality({p \in Pairs(lin) : lin[p[1]][p[2]][1] = i - 1})]
IsContextFree(G) == \A r \in DOMAIN G : Len(r.lin) <= 1

\* instantiating lin with the children's blocks gives the node's blocks (model-level statement)
C06instantiates(T, x, lin) ==
  LET ks == KidsSeq(T, x)
      kb == [i \in 1..Len(ks) |-> RunsSeq(ks[i].y)]
      ok(e) == e[1] + 1 \in 1..Len(ks) /\ e[2] + 1 \in 1..Len(kb[e[1] + 1])
      blk(e) == kb[e[1] + 1][e[2] + 1]
  IN /\ \A e \in RefsOf(lin) : ok(e)
     /\ Len(lin) = Len(RunsSeq(x.y))
     /\ \A a \in 1..Len(lin) :
          /\ UNION {blk(lin[a][j]) : j \in 1..Len(lin[a])} = RunsSeq(x.y)[a]
          /\ \A j \in 1..(Len(lin[a]) - 1) : SetMax(blk(lin[a][j])) + 1 = SetMin(blk(lin[a][j + 1]))
     \* every block of every child exactly once ...
     /\ Cardinality(Pairs(lin)) = Cardinality(RefsOf(lin))
     /\ RefsOf(lin) = UNION {{<<i - 1, k - 1>> : k \in 1..Len(kb[i])} : i \in 1..Len(ks)}
     \* ... and in order
     /\ \A p, q \in Pairs(lin) :
          (lin[p[1]][p[2]][1] = lin[q[1]][q[2]][1] /\ Before(p, q)) => lin[p[1]][p[2]][2] < lin[q[1]][q[2]][2]
C06fanout(T, x, lin) ==
  LET ks == KidsSeq(T, x)  fo == FanOutOf(lin) IN
  /\ fo[1] = Cardinality(Runs(x.y))
  /\ Len(fo) = Len(ks) + 1
  /\ \A i \in 1..Len(ks) : fo[i + 1] = Cardinality(Runs(ks[i].y))

-----------------------------------------------------------------------------
(* binarization (C07): linsub and the chain construction, one step per RHS element *)
\* stream of lin elements with END markers between arguments
Stream(lin) == FlattenSeq([a \in 1..Len(lin) |-> lin[a] \o << <<NoneV, NoneV>> >>])
CntGet(c, i) == IF i \in DOMAIN c THEN c[i] ELSE 0
CntInc(c, i) == [j \in DOMAIN c \cup {i} |-> IF j = i THEN CntGet(c, i) + 1 ELSE c[j]]
LinSub(lin, Src(_), Dest(_), replace) ==
  LET step(st, el) ==
        IF el[1] = NoneV THEN
          [st EXCEPT !.res = IF st.cur # <<>> THEN Append(@, st.cur) ELSE @, !.cur = <<>>]
        ELSE IF Src(el[1]) THEN
          LET d == Dest(el[1]) IN
          IF d # NoneV THEN
            IF replace /\ st.cur # <<>> /\ st.cur[Len(st.cur)][1] = d THEN st
            ELSE [st EXCEPT !.cur = Append(@, <<d, CntGet(st.cnt, d)>>), !.cnt = CntInc(@, d)]
          ELSE [st EXCEPT !.res = IF st.cur # <<>> THEN Append(@, st.cur) ELSE @, !.cur = <<>>]
        ELSE [st EXCEPT !.cur = Append(@, <<el[1], CntGet(st.cnt, el[1])>>), !.cnt = CntInc(@, el[1])]
  IN FoldLeft(step, [res |-> <<>>, cur |-> <<>>, cnt |-> <<>>], Stream(lin)).res

SubLin(lin)   == LinSub(lin, LAMBDA x : x > 0, LAMBDA x : 1, TRUE)
ShiftLin(lin) == LinSub(LinSub(lin, LAMBDA x : x >= 0, LAMBDA x : x - 1, FALSE),
                        LAMBDA x : x = -1, LAMBDA x : NoneV, FALSE)

\* label generators
DetLabel(n) == "@" \o ToString(n) \o "X"
MarkovLabel(func, pos, vert, fo, mk) ==
  LET vpart == FoldLeft(LAMBDA acc, i : acc \o "^" \o vert[i], "",
                        [i \in 1..(IF mk.v > 0 THEN (IF Len(vert) < mk.v THEN Len(vert) ELSE mk.v) ELSE 0) |-> i])
      \* horizontal context: elements pos+1, pos, ... (1-based RHS indices), at most h of them
      hn == IF mk.h > 0 THEN (IF pos + 1 < mk.h THEN pos + 1 ELSE mk.h) ELSE 0
      hpart == FoldLeft(LAMBDA acc, j : acc \o "-" \o func[(pos + 1 - (j - 1)) + 1]
                                        \o (IF mk.nofanout THEN "" ELSE ToString(fo[(pos + 1 - (j - 1)) + 1])),
                        "", [j \in 1..hn |-> j])
  IN "@" \o vpart \o hpart \o "X"

\* binarization of one rule as a state machine: st = [func, lin, this, lab, pos, out, n]
\*   lab(pos) gives the label of the pos-th binarization symbol
BinStart(func, lin, Lab(_)) ==
  [func |-> func, this |-> lin, pos |-> 0, label |-> Lab(0),
   out |-> << [func |-> <<func[1], func[2], Lab(0)>>, lin |-> SubLin(lin)] >>]
BinStep(st, Lab(_)) ==
  LET i == st.pos + 1  this == ShiftLin(st.this) IN
  [st EXCEPT !.this = this, !.pos = i, !.label = Lab(i),
             !.out = Append(@, [func |-> <<st.label, st.func[i + 2], Lab(i)>>, lin |-> SubLin(this)])]
BinLast(st) ==
  LET this == ShiftLin(st.this)  n == Len(st.func) IN
  Append(st.out, [func |-> <<st.label, st.func[n - 1], st.func[n]>>, lin |-> this])
RECURSIVE BinRun(_, _, _)
BinRun(st, Lab(_), k) == IF k = 0 THEN BinLast(st) ELSE BinRun(BinStep(st, Lab), Lab, k - 1)
\* all rules produced for (func, lin): rank <= 2 kept; else the chain of rank-1 binary rules
BinarizeRule(func, lin, Lab(_)) ==
  IF RankOf(func) <= 2 THEN << [func |-> func, lin |-> lin] >>
  ELSE BinRun(BinStart(func, lin, Lab), Lab, RankOf(func) - 3)

\* reordering
PermApply(func, lin, pi) ==      \* pi[k] = old RHS index (1-based) placed at position k
  LET inv == [old \in 1..Len(pi) |-> CHOOSE k \in 1..Len(pi) : pi[k] = old] IN
  [func |-> <<func[1]>> \o [k \in 1..Len(pi) |-> func[pi[k] + 1]],
   lin |-> [a \in 1..Len(lin) |-> [j \in 1..Len(lin[a]) |-> <<inv[lin[a][j][1] + 1] - 1, lin[a][j][2]>>]]]
RemoveVar(lin, v) == LinSub(lin, LAMBDA x : x = v, LAMBDA x : NoneV, FALSE)
VarCount(l) == SumOver(1..Len(l), LAMBDA a : Len(l[a]))
RECURSIVE OptOrder(_, _, _)
OptOrder(lin, pos, order) ==     \* greedy: next = the element whose removal leaves the lowest fan-out
  IF pos = <<>> THEN order
  ELSE LET f(p) == Len(RemoveVar(lin, p - 1))
           best == SetMin({f(pos[i]) : i \in 1..Len(pos)})
           w == pos[SetMin({i \in 1..Len(pos) : f(pos[i]) = best})]
       IN OptOrder(lin, SelectSeq(pos, LAMBDA p : p # w), Append(order, w))
ReorderOptimal(func, lin) ==
  PermApply(func, lin, OptOrder(lin, [i \in 1..RankOf(func) |-> i], <<>>))

-----------------------------------------------------------------------------
(* C07 clauses over an output grammar G (set of [func, lin]) *)
LeafVal(i, f) == [k \in 1..f |-> << <<i, k - 1>> >>]
UsesOK(lin, n0, n1) ==     \* a binary (or unary) rule uses each argument of its RHS exactly once
  LET fo == FanOutOf(lin) IN
  /\ Len(fo) >= 2 /\ fo[2] = n0 /\ (n1 > 0 => (Len(fo) = 3 /\ fo[3] = n1))
  /\ Cardinality(Pairs(lin)) = Cardinality(RefsOf(lin))
  /\ \A e \in RefsOf(lin) : e[1] \in {0, 1} /\ e[2] >= 0 /\ e[2] < (IF e[1] = 0 THEN n0 ELSE n1)
RuleVal(lin, v0, v1) ==
  [a \in 1..Len(lin) |->
     FlattenSeq([j \in 1..Len(lin[a]) |->
                   IF lin[a][j][1] = 0 THEN v0[lin[a][j][2] + 1] ELSE v1[lin[a][j][2] + 1]])]
\* values derivable for symbol X covering RHS elements j..r of F (fo = fan-outs of F's RHS)
RECURSIVE ChainVals(_, _, _, _, _, _)
ChainVals(G, X, F, j, r, fo) ==
  IF j = r - 1 THEN
    {RuleVal(g.lin, LeafVal(j - 1, fo[j]), LeafVal(r - 1, fo[r])) :
       g \in {g \in G : g.func = <<X, F[j + 1], F[r + 1]>> /\ UsesOK(g.lin, fo[j], fo[r])}}
  ELSE
    UNION {{RuleVal(g.lin, LeafVal(j - 1, fo[j]), v) :
              v \in {v \in ChainVals(G, g.func[3], F, j + 1, r, fo) : UsesOK(g.lin, fo[j], Len(v))}} :
           g \in {g \in G : Len(g.func) = 3 /\ g.func[1] = X /\ g.func[2] = F[j + 1]}}
Composes(G, func, lin) ==
  LET r == RankOf(func)  fo == Tail(FanOutOf(lin)) IN
  IF r <= 2 THEN [func |-> func, lin |-> lin] \in G
  ELSE lin \in ChainVals(G, func[1], func, 1, r, fo)
Perms(n) == {p \in [1..n -> 1..n] : \A i, j \in 1..n : i # j => p[i] # p[j]}
ComposesUpTo(G, func, lin, reorder) ==
  IF reorder = "none" THEN Composes(G, func, lin)
  ELSE \E pi \in Perms(RankOf(func)) :
         LET q == PermApply(func, lin, [k \in 1..RankOf(func) |-> pi[k]]) IN Composes(G, q.func, q.lin)

Symbols(G) == UNION {{g.func[i] : i \in 1..Len(g.func)} : g \in G}
=============================================================================

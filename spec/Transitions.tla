----------------------------- MODULE Transitions -----------------------------
(***************************************************************************)
(* The three shift-reduce transition systems of trees/transitions.py as    *)
(* explicit automata over (buffer, stack, deque), and the static oracles   *)
(* that emit a transition sequence for a tree (property C10).              *)
(*                                                                         *)
(*   topdown : SHIFT, UNARY-X, BINARY-side-X.  The emitted sequence is the *)
(*             reversed preorder, so the automaton reads the sentence      *)
(*             right to left (direction fixed by the repository's golden   *)
(*             test; modelling decision, DESIGN 6/C10).                    *)
(*   inorder : SHIFT, PJ-X, REDUCE   (arbitrary arity)                     *)
(*   gap     : SHIFT, GAP, R-side-X, UNARY-X over stack + deque            *)
(*             (Coavoux & Crabbe).  PushBack = "preserve" is the published *)
(*             automaton; "reverse" is what the oracle's private           *)
(*             simulation does (deviation gap_pushback_reversed).          *)
(* A transition is a record [t, side, lab].  An item is a partial tree     *)
(* [mk, lab, y, ns]: ns = nodes [y, d, tok, lab, hd] with depths relative  *)
(* to the item's root; mk = TRUE marks an open projection (inorder).       *)
(***************************************************************************)
EXTENDS TreeModel

CONSTANT Dev

Tr(t, side, lab) == [t |-> t, side |-> side, lab |-> lab]
Rev(s) == [i \in 1..Len(s) |-> s[Len(s) + 1 - i]]

Leaf(T, p) == [mk |-> FALSE, lab |-> "~", y |-> {p},
               ns |-> {[y |-> {p}, d |-> 0, tok |-> TRUE, lab |-> Tok(T, p).a.lab, hd |-> "?"]}]
Marker(X)  == [mk |-> TRUE, lab |-> X, y |-> {}, ns |-> {}]
\* new node X over the items its[1..k]; hs[i] = head flag for the root of its[i]
WrapN(X, its, hs) ==
  LET Y == UNION {its[i].y : i \in 1..Len(its)} IN
  [mk |-> FALSE, lab |-> "~", y |-> Y,
   ns |-> {[y |-> Y, d |-> 0, tok |-> FALSE, lab |-> X, hd |-> "?"]} \cup
          UNION {{[n EXCEPT !.d = @ + 1, !.hd = IF n.d = 0 THEN hs[i] ELSE @] : n \in its[i].ns} :
                 i \in 1..Len(its)}]

\* configuration; index 1 = top of stack / deque; buf = positions still unread
Cfg0(T) == [s |-> <<>>, d |-> <<>>, lo |-> 1, hi |-> T.n, err |-> FALSE]
Stuck(c) == [c EXCEPT !.err = TRUE]

(* ---- top-down (right-to-left) automaton ---- *)
TDStep(c, tr, T) ==
  IF c.err THEN c
  ELSE IF tr.t = "SHIFT" THEN
         IF c.lo > c.hi THEN Stuck(c)
         ELSE [c EXCEPT !.s = <<Leaf(T, c.hi)>> \o @, !.hi = @ - 1]
  ELSE IF tr.t = "UNARY" THEN
         IF Len(c.s) < 1 THEN Stuck(c)
         ELSE [c EXCEPT !.s = <<WrapN(tr.lab, <<c.s[1]>>, <<"?">>)>> \o Tail(@)]
  ELSE IF tr.t = "BINARY" THEN
         IF Len(c.s) < 2 \/ tr.side \notin {"LEFT", "RIGHT"} THEN Stuck(c)
         ELSE [c EXCEPT !.s = <<WrapN(tr.lab, <<c.s[1], c.s[2]>>,
                                     IF tr.side = "LEFT" THEN <<"T", "F">> ELSE <<"F", "T">>)>>
                              \o Tail(Tail(@))]
  ELSE Stuck(c)

(* ---- in-order automaton ---- *)
TopMarker(s) == LET M == {i \in 1..Len(s) : s[i].mk} IN IF M = {} THEN 0 ELSE SetMin(M)
IOStep(c, tr, T) ==
  IF c.err THEN c
  ELSE IF tr.t = "SHIFT" THEN
         IF c.lo > c.hi THEN Stuck(c)
         ELSE [c EXCEPT !.s = <<Leaf(T, c.lo)>> \o @, !.lo = @ + 1]
  ELSE IF tr.t = "PJ" THEN
         IF Len(c.s) < 1 \/ c.s[1].mk THEN Stuck(c)
         ELSE [c EXCEPT !.s = <<Marker(tr.lab)>> \o @]
  ELSE IF tr.t = "REDUCE" THEN
         LET m == TopMarker(c.s) IN
         IF m = 0 \/ m = Len(c.s) \/ c.s[m + 1].mk THEN Stuck(c)
         ELSE LET kids == <<c.s[m + 1]>> \o Rev(SubSeq(c.s, 1, m - 1)) IN
              [c EXCEPT !.s = <<WrapN(c.s[m].lab, kids, [i \in 1..Len(kids) |-> "?"])>>
                               \o SubSeq(@, m + 2, Len(@))]
  ELSE Stuck(c)

(* ---- gap automaton ---- *)
PushBackOf(mode, s, drest) == IF mode = "reverse" THEN Rev(drest) \o s ELSE drest \o s
GapStep(c, tr, T, mode) ==
  IF c.err THEN c
  ELSE IF tr.t = "SHIFT" THEN
         IF c.lo > c.hi THEN Stuck(c)
         ELSE [c EXCEPT !.s = PushBackOf(mode, c.s, c.d), !.d = <<Leaf(T, c.lo)>>, !.lo = @ + 1]
  ELSE IF tr.t = "GAP" THEN
         IF Len(c.s) < 1 \/ Len(c.d) < 1 THEN Stuck(c)
         ELSE [c EXCEPT !.s = Tail(@), !.d = @ \o <<c.s[1]>>]
  ELSE IF tr.t = "R" THEN
         IF Len(c.s) < 1 \/ Len(c.d) < 1 \/ tr.side \notin {"LEFT", "RIGHT"} THEN Stuck(c)
         ELSE [c EXCEPT !.s = PushBackOf(mode, Tail(c.s), Tail(c.d)),
                        !.d = <<WrapN(tr.lab, <<c.s[1], c.d[1]>>,
                                      IF tr.side = "LEFT" THEN <<"T", "F">> ELSE <<"F", "T">>)>>]
  ELSE IF tr.t = "UNARY" THEN
         IF Len(c.d) < 1 THEN Stuck(c)
         ELSE [c EXCEPT !.d = <<WrapN(tr.lab, <<c.d[1]>>, <<"?">>)>> \o Tail(@)]
  ELSE Stuck(c)

Step(sys, c, tr, T, mode) ==
  IF sys = "topdown" THEN TDStep(c, tr, T)
  ELSE IF sys = "inorder" THEN IOStep(c, tr, T)
  ELSE GapStep(c, tr, T, mode)
RECURSIVE ExecFrom(_, _, _, _, _, _)
ExecFrom(sys, c, seq, k, T, mode) ==
  IF k > Len(seq) THEN c ELSE ExecFrom(sys, Step(sys, c, seq[k], T, mode), seq, k + 1, T, mode)
Run(sys, T, seq, mode) == ExecFrom(sys, Cfg0(T), seq, 1, T, mode)

(* ---- acceptance clauses on a final configuration ---- *)
Result(sys, c) == IF sys = "gap" THEN c.d ELSE c.s
ConsumesAll(c) == c.lo > c.hi
SingleItem(sys, c) ==
  /\ Len(Result(sys, c)) = 1 /\ ~Result(sys, c)[1].mk
  /\ (sys = "gap" => c.s = <<>>)
ProjT(T) == {[y |-> x.y, d |-> x.d, tok |-> x.tok, lab |-> x.a.lab] : x \in T.nodes}
ProjI(it) == {[y |-> n.y, d |-> n.d, tok |-> n.tok, lab |-> n.lab] : n \in it.ns}
Rebuilds(sys, c, T) == SingleItem(sys, c) /\ ProjI(Result(sys, c)[1]) = ProjT(T)
HeadSides(sys, c, T) ==
  SingleItem(sys, c) =>
    \A n \in Result(sys, c)[1].ns : n.hd \in {"T", "F"} =>
       \A x \in T.nodes : (x.y = n.y /\ x.d = n.d /\ x.tok = n.tok) => x.a.head = n.hd

(* ---- static oracles (reference level) ---- *)
NodeTr(T, x) ==
  LET ks == KidsSeq(T, x) IN
  IF x.tok THEN Tr("SHIFT", "~", "~")
  ELSE IF Len(ks) = 1 THEN Tr("UNARY", "~", x.a.lab)
  ELSE Tr("BINARY", IF ks[1].a.head = "T" THEN "LEFT" ELSE "RIGHT", x.a.lab)
TopDownOracle(T) == LET p == Pre(T, Root(T)) IN Rev([i \in 1..Len(p) |-> NodeTr(T, p[i])])

RECURSIVE InOrderOf(_, _)
InOrderOf(T, x) ==
  LET ks == KidsSeq(T, x)
      sub(k) == IF k.tok THEN <<Tr("SHIFT", "~", "~")>> ELSE InOrderOf(T, k)
  IN sub(ks[1]) \o <<Tr("PJ", "~", x.a.lab)>>
     \o FlattenSeq([i \in 1..(Len(ks) - 1) |-> sub(ks[i + 1])]) \o <<Tr("REDUCE", "~", "~")>>
InOrderOracle(T) == InOrderOf(T, Root(T))

\* gap oracle: a simulation over nodes of T (as the code does)
OracleMode == IF "gap_pushback_reversed" \in Dev THEN "reverse" ELSE "preserve"
SameParent(T, a, b) == HasParent(T, a) /\ HasParent(T, b) /\ Parent(T, a) = Parent(T, b)
RECURSIVE GapUnary(_, _)
GapUnary(T, o) ==   \* o = [s, d, b, out]
  IF Len(o.d) > 0 /\ HasParent(T, o.d[1]) /\ Cardinality(Kids(T, Parent(T, o.d[1]))) = 1
  THEN GapUnary(T, [o EXCEPT !.out = Append(@, Tr("UNARY", "~", Parent(T, o.d[1]).a.lab)),
                             !.d = <<Parent(T, o.d[1])>> \o Tail(@)])
  ELSE o
GapDone(T, o) == o.s = <<>> /\ o.b > T.n /\ Len(o.d) = 1
RECURSIVE GapLoop(_, _, _)
GapLoop(T, o, fuel) ==
  IF fuel = 0 THEN o
  ELSE
   LET o1 ==
     IF Len(o.s) > 0 /\ Len(o.d) > 0 /\ SameParent(T, o.d[1], o.s[1])
     THEN LET p == Parent(T, o.s[1]) IN
          [o EXCEPT !.out = Append(@, Tr("R", IF o.s[1].a.head = "T" THEN "LEFT" ELSE "RIGHT", p.a.lab)),
                    !.s = PushBackOf(OracleMode, Tail(o.s), Tail(o.d)), !.d = <<p>>]
     ELSE IF Len(o.d) > 0 /\ \E i \in 1..Len(o.s) : SameParent(T, o.s[i], o.d[1])
     THEN LET i == SetMin({j \in 1..Len(o.s) : SameParent(T, o.s[j], o.d[1])}) IN
          [o EXCEPT !.out = @ \o [j \in 1..(i - 1) |-> Tr("GAP", "~", "~")],
                    !.d = @ \o SubSeq(o.s, 1, i - 1), !.s = SubSeq(@, i, Len(@))]
     ELSE IF o.b > T.n THEN [o EXCEPT !.out = Append(@, Tr("STUCK", "~", "~"))]
     ELSE [o EXCEPT !.out = Append(@, Tr("SHIFT", "~", "~")),
                    !.s = PushBackOf(OracleMode, o.s, o.d), !.d = <<Tok(T, o.b)>>, !.b = @ + 1]
   IN IF o1.out[Len(o1.out)].t = "STUCK" THEN o1
      ELSE IF "gap_unary_after_termination" \in Dev
      THEN (IF GapDone(T, o1) THEN o1 ELSE GapLoop(T, GapUnary(T, o1), fuel - 1))
      ELSE LET o2 == GapUnary(T, o1) IN IF GapDone(T, o2) THEN o2 ELSE GapLoop(T, o2, fuel - 1)
GapOracle(T) == GapLoop(T, [s |-> <<>>, d |-> <<>>, b |-> 1, out |-> <<>>], 8 * T.n + 8).out

Oracle(sys, T) == IF sys = "topdown" THEN TopDownOracle(T)
                  ELSE IF sys = "inorder" THEN InOrderOracle(T) ELSE GapOracle(T)

\* the property on (tree, sequence): names of failed clauses
C10Clauses(sys, T, seq, mode) ==
  LET c == Run(sys, T, seq, mode) IN
  (IF c.err THEN {"C10.enabled"} ELSE {}) \cup
  (IF ~c.err /\ ~ConsumesAll(c) THEN {"C10.consumes_all"} ELSE {}) \cup
  (IF ~c.err /\ ~SingleItem(sys, c) THEN {"C10.single_item"} ELSE {}) \cup
  (IF ~c.err /\ SingleItem(sys, c) /\ ~Rebuilds(sys, c, T) THEN {"C10.rebuilds"} ELSE {}) \cup
  (IF ~c.err /\ ~HeadSides(sys, c, T) THEN {"C10.head_sides"} ELSE {})

Binarized(T) == \A x \in CNodes(T) : Cardinality(Kids(T, x)) \in {1, 2}
=============================================================================

---------------------------- MODULE Apa_Split ----------------------------
(***************************************************************************)
(* Symbolic check (Apalache) of the split-specification arithmetic of      *)
(* module Split for EVERY treebank size: `size` ranges over all naturals,  *)
(* absolute part sizes over all integers, percentages over -1..150; the    *)
(* specification has up to MaxParts parts (Gen bounds only the length).    *)
(* TLC checks the same operators for sizes up to 12 / 2000 (MC_Split).     *)
(* The module is instantiated by a generated root module that defines      *)
(* DevC (the set of deviations) and MaxPartsC.                             *)
(***************************************************************************)
EXTENDS Integers, Sequences, Apalache, Apa_SplitConsts
VARIABLES
  \* @type: Int;
  size,
  \* @type: Seq({k: Str, n: Int});
  spec
S == INSTANCE Split WITH Dev <- DevC
Kinds == {"pct", "abs", "rest", "bad"}
Init == /\ size \in Nat
        /\ spec = Gen(MaxPartsC)
        /\ \A i \in DOMAIN spec : spec[i].k \in Kinds /\ (spec[i].k = "pct" => spec[i].n \in -1..150)
Next == UNCHANGED <<size, spec>>
Res == S!SplitParse(spec, size)
\* rejected exactly when the property says so; an accepted specification yields one part per
\* entry, no negative part, parts that sum to the number of trees, and every entry that cannot
\* receive the remainder has exactly its own demand (percentages rounded down)
Inv == LET r == Res
           hasRest == \E i \in DOMAIN spec : spec[i].k = "rest"
           demand == S!Demand(spec, size) IN
       /\ (S!MustReject(spec, size) <=> r.rejected)
       /\ (~r.rejected =>
             /\ Len(r.parts) = Len(spec)
             /\ S!SumSeq(r.parts) = size
             /\ \A i \in DOMAIN r.parts : r.parts[i] >= 0
             /\ \A i \in DOMAIN spec :
                  IF spec[i].k = "rest" THEN r.parts[i] = size - demand
                  ELSE IF hasRest THEN r.parts[i] = S!BaseOf(spec[i], size)
                  ELSE r.parts[i] \in {S!BaseOf(spec[i], size), S!BaseOf(spec[i], size) + (size - demand)})
==========================================================================

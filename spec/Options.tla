------------------------------- MODULE Options -------------------------------
(***************************************************************************)
(* misc.options_dict: the "key:value" lists given to --params, --src-opts, *)
(* --dest-opts and --markov (part of the command-line surface of C03/C09). *)
(* An option is a character sequence; the result maps keys to TRUE (no     *)
(* colon), an integer (all-digit value) or the value's characters.         *)
(* A value that itself contains a colon is cut at the second colon by the  *)
(* code; the documentation does not say, so such options are not judged.   *)
(***************************************************************************)
EXTENDS Integers, Sequences, FiniteSets, SequencesExt, TLC
DigitSet == {"0", "1", "2", "3", "4", "5", "6", "7", "8", "9"}
IsDigits(s) == Len(s) > 0 /\ \A i \in 1..Len(s) : s[i] \in DigitSet
DigitVal(c) == CHOOSE v \in 0..9 : <<"0", "1", "2", "3", "4", "5", "6", "7", "8", "9">>[v + 1] = c
RECURSIVE ToInt(_)
ToInt(s) == IF Len(s) = 0 THEN 0 ELSE 10 * ToInt(SubSeq(s, 1, Len(s) - 1)) + DigitVal(s[Len(s)])
Colons(s) == {i \in 1..Len(s) : s[i] = ":"}
FirstColon(s) == CHOOSE i \in Colons(s) : \A j \in Colons(s) : i <= j
Judged(s) == Cardinality(Colons(s)) <= 1
KeyOf(s) == IF Colons(s) = {} THEN s ELSE SubSeq(s, 1, FirstColon(s) - 1)
\* value as a tagged record: [t |-> "true"] | [t |-> "int", v] | [t |-> "str", v]
ValOf(s) == IF Colons(s) = {} THEN [t |-> "true", v |-> 0, s |-> <<>>]
            ELSE LET v == SubSeq(s, FirstColon(s) + 1, Len(s)) IN
                 IF IsDigits(v) THEN [t |-> "int", v |-> ToInt(v), s |-> <<>>] ELSE [t |-> "str", v |-> 0, s |-> v]
\* the dict as a function on keys; a later option overrides an earlier one with the same key
OptionsDict(opts) ==
  [k \in {KeyOf(opts[i]) : i \in 1..Len(opts)} |->
     ValOf(opts[CHOOSE i \in 1..Len(opts) : KeyOf(opts[i]) = k /\ \A j \in (i + 1)..Len(opts) : KeyOf(opts[j]) # k])]
\* clause on a logged result: out = sequence of [k, t, v, s]
OptionsOK(opts, out) ==
  (\A i \in 1..Len(opts) : Judged(opts[i])) =>
     LET D == OptionsDict(opts) IN
     /\ {out[i].k : i \in 1..Len(out)} = DOMAIN D
     /\ \A i \in 1..Len(out) : out[i].k \in DOMAIN D => [t |-> out[i].t, v |-> out[i].v, s |-> out[i].s] = D[out[i].k]
=============================================================================

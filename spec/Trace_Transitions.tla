-------------------------- MODULE Trace_Transitions --------------------------
(***************************************************************************)
(* Trace validation for C10: THE EMITTED TRANSITION LIST IS THE TRACE.     *)
(* One behaviour per (tree, system); each emitted transition is one step   *)
(* of the system's automaton (Transitions.tla); a transition that is not   *)
(* enabled closes the case with C10.enabled.  At the end the acceptance    *)
(* clauses compare the item built with the abstraction of the input tree.  *)
(***************************************************************************)
EXTENDS Transitions, Json, IOUtils
CONSTANT Mode
Doc   == JsonDeserialize(IOEnv.TRACE_FILE)
Cases == Doc.cases
VARIABLES tid, l, cfg, errs, done
Case == Cases[tid]
T == Abs(Case.tree)
TrOf(x) == Tr(x[1], x[2], x[3])

TInit == /\ tid \in 1..Len(Cases) /\ l = 0 /\ done = FALSE
         /\ cfg = Cfg0(Abs(Cases[tid].tree))
         /\ errs = IF Cases[tid].res = "ok" THEN {} ELSE {<<"C10.raised", 0>>}
IsEvent(name) == /\ ~done /\ ~cfg.err /\ Case.res = "ok" /\ l < Len(Case.seq)
                 /\ Case.seq[l + 1][1] = name /\ l' = l + 1
TakeStep == cfg' = Step(Case.sys, cfg, TrOf(Case.seq[l + 1]), T, Mode) /\ UNCHANGED <<tid, errs, done>>
TShift  == IsEvent("SHIFT") /\ TakeStep
TUnary  == IsEvent("UNARY") /\ TakeStep
TBinary == IsEvent("BINARY") /\ TakeStep
TPj     == IsEvent("PJ") /\ TakeStep
TReduce == IsEvent("REDUCE") /\ TakeStep
TGap    == IsEvent("GAP") /\ TakeStep
TR      == IsEvent("R") /\ TakeStep
TOther  == /\ ~done /\ ~cfg.err /\ Case.res = "ok" /\ l < Len(Case.seq)
           /\ Case.seq[l + 1][1] \notin {"SHIFT", "UNARY", "BINARY", "PJ", "REDUCE", "GAP", "R"}
           /\ l' = l + 1 /\ cfg' = Stuck(cfg) /\ UNCHANGED <<tid, errs, done>>

Final ==
  (IF cfg.err THEN {<<"C10.enabled", l>>} ELSE {}) \cup
  (IF ~cfg.err /\ ~ConsumesAll(cfg) THEN {<<"C10.consumes_all", l>>} ELSE {}) \cup
  (IF ~cfg.err /\ ~SingleItem(Case.sys, cfg) THEN {<<"C10.single_item", l>>} ELSE {}) \cup
  (IF ~cfg.err /\ SingleItem(Case.sys, cfg) /\ ~Rebuilds(Case.sys, cfg, T) THEN {<<"C10.rebuilds", l>>} ELSE {}) \cup
  (IF ~cfg.err /\ ~HeadSides(Case.sys, cfg, T) THEN {<<"C10.head_sides", l>>} ELSE {}) \cup
  (IF Case.sent # Sentence(T) THEN {<<"C10.sentence", l>>} ELSE {}) \cup
  (IF Case.file.used = "T" /\
      ~(/\ Case.file.trans = Case.raw
        /\ Case.file.words = [p \in 1..T.n |-> IF Case.file.pos = "T" THEN Tok(T, p).a.lab
                                                 ELSE Tok(T, p).a.word]
        /\ Case.file.nlines = 1)
   THEN {<<"C10.file_line", l>>} ELSE {})
Fidelity == IF Case.res = "ok" /\ [i \in 1..Len(Case.seq) |-> TrOf(Case.seq[i])] # Oracle(Case.sys, T)
            THEN {Case.sys} ELSE {}
Tags ==
  (IF GapDeg(T) > 0 THEN {"discontinuous"} ELSE {}) \cup
  (IF Cardinality(Kids(T, Root(T))) = 1 THEN {"unary_root"} ELSE {}) \cup
  (IF T.n = 1 THEN {"one_token"} ELSE {}) \cup
  (IF \E i \in 1..Len(Case.seq) : i > 1 /\ Case.seq[i][1] = "GAP" /\ Case.seq[i - 1][1] = "GAP"
   THEN {"two_gaps_in_a_row"} ELSE {}) \cup {Case.sys}

TDone == /\ ~done /\ (l = Len(Case.seq) \/ cfg.err \/ Case.res # "ok") /\ done' = TRUE
         /\ PrintT("VERDICT " \o ToJson(
               [id |-> Case.id, steps |-> l, tags |-> Tags, fidelity |-> Fidelity,
                failed |-> errs \cup (IF Case.res = "ok" THEN Final ELSE {}),
                nontrivial |-> (T.n > 1 /\ Cardinality(CNodes(T)) > 1),
                unexamined |-> Len(Case.seq) - l]))
         /\ UNCHANGED <<tid, l, cfg, errs>>
TNext == TShift \/ TUnary \/ TBinary \/ TPj \/ TReduce \/ TGap \/ TR \/ TOther \/ TDone
=============================================================================

---------------------------- MODULE Trace_Session ----------------------------
(***************************************************************************)
(* Trace validation of real `treetools transform` subprocess runs (C03,    *)
(* C17 distribution part).  A case carries the intended source corpora     *)
(* (abstract trees), the argument record of Session.tla and the events     *)
(*   run      : exit status and the lexical records of every file written  *)
(*   selfread : what the tool's own reader yields from a written file      *)
(*   back     : a second run converting the result back to the source      *)
(*              format (A -> B -> A)                                       *)
(* Expected status and file layout come from the Session state machine     *)
(* (C03ok / C17ok are its invariants); what each file must denote comes    *)
(* from Readers (what the source reader delivers) and Writers/Formats.      *)
(***************************************************************************)
EXTENDS Readers, Writers, Split, Json, IOUtils
Doc   == JsonDeserialize(IOEnv.TRACE_FILE)
Cases == Doc.cases
BrTab == Doc.config.brtab
VARIABLES tid, l, errs, done
Case == Cases[tid]
SO == {Case.srcopts[i] : i \in 1..Len(Case.srcopts)}
DO == {Case.destopts[i] : i \in 1..Len(Case.destopts)}

\* the tree a reader of format fmt delivers for the intended tree T (fields the format does not carry: defaults)
ReadTree(fmt, T0, o, four) ==
  LET T == IF fmt = "tigerxml" THEN AddVRoot(T0) ELSE T0 IN
  [T EXCEPT !.nodes =
     {LET a == ExpAttr(fmt, T, x, o, "-", BrTab, four) IN
      [x EXCEPT !.a = [a EXCEPT !.lemma = IF fmt \in {"brackets", "discobrackets"} THEN Dash2 ELSE @,
                                !.morph = IF fmt \in {"brackets", "discobrackets"} \/ (fmt = "tigerxml" /\ ~x.tok) THEN Dash2 ELSE @]]
        : x \in @}]
Keeps(T) == ~(Case.filt.on = "T" /\ ((Case.filt.op = "lt" /\ T.n < Case.filt.val) \/ (Case.filt.op = "gt" /\ T.n > Case.filt.val)
                                     \/ (Case.filt.op = "eq" /\ T.n = Case.filt.val)))
SrcTrees(i) == [k \in 1..Len(Case.trees[i]) |-> ReadTree(Case.srcfmt, TreeOfJson(Case.trees[i][k]), SO, Case.four = "T")]
Kept(i) == SelectSeq(SrcTrees(i), Keeps)
KeptSids(i) == LET idx == SelectSeq([k \in 1..Len(Case.trees[i]) |-> k], LAMBDA k : Keeps(SrcTrees(i)[k])) IN
               [j \in 1..Len(idx) |-> IF "continuous" \in SO THEN idx[j] ELSE Case.sids[i][idx[j]]]
Writable(T) == ~(Case.destfmt = "brackets" /\ GapDeg(T) > 0)
NSrc == Len(Case.trees)
SplitOn == Len(Case.split) > 0
SpecRes == SplitParse(Case.split, Len(Kept(1)))
ExpectOK ==
  /\ \A i \in 1..NSrc : \A k \in 1..Len(Kept(i)) : Writable(Kept(i)[k])
  /\ (SplitOn => (NSrc = 1 /\ ~SpecRes.rejected))

\* ---- what a written file denotes: sequence of comparison values, or <<"?">> if not decodable ----
RECURSIVE ExportSentences(_, _)
ExportSentences(L, i) ==     \* segments #BOS .. #EOS
  IF i > Len(L) THEN <<>>
  ELSE IF Len(L[i].f) >= 1 /\ L[i].f[1] = BosC THEN
     LET E == {j \in i..Len(L) : Len(L[j].f) >= 1 /\ L[j].f[1] = EosC} IN
     IF E = {} THEN << SubSeq(L, i, Len(L)) >>
     ELSE << SubSeq(L, i, SetMin(E)) >> \o ExportSentences(L, SetMin(E) + 1)
  ELSE ExportSentences(L, i + 1)
Denotes(fmt, o, rec) ==
  CASE fmt = "export" ->
         LET S == ExportSentences(rec.lines, 1)  four == "export_four" \in o IN
         [k \in 1..Len(S) |-> IF ExportWF(S[k], four) THEN [sid |-> ExportSid(S[k]), v |-> ProjFile(DecodeExport(S[k], four))]
                              ELSE [sid |-> -1, v |-> {}]]
    [] fmt = "tigerxml" ->
         IF rec.ok # "T" THEN << [sid |-> -1, v |-> {}] >>
         ELSE [k \in 1..Len(rec.sents) |-> IF TigerWF(rec.sents[k]) THEN [sid |-> 0, v |-> ProjFile(DecodeTiger(rec.sents[k]))]
                                           ELSE [sid |-> -1, v |-> {}]]
    [] fmt = "brackets" -> [k \in 1..Len(rec.lines) |-> [sid |-> 0, v |-> rec.lines[k]]]
    [] fmt = "discobrackets" -> [k \in 1..Len(rec.lines) |-> [sid |-> 0, v |-> <<rec.lines[k].toks, rec.lines[k].sent>>]]
    [] fmt = "terminals" -> [k \in 1..Len(rec.lines) |-> [sid |-> 0, v |-> rec.lines[k]]]
ExpValue(fmt, o, R) ==
  CASE fmt = "export" -> CarryExport(R, o, "-", "export_four" \in o)
    [] fmt = "tigerxml" -> CarryTiger(R)
    [] fmt = "brackets" -> ExpBrackets(R, o, "-", BrTab)
    [] fmt = "discobrackets" -> <<ExpDisco(R, o, "-", BrTab), WordsOf(R)>>
    [] fmt = "terminals" -> WordsOf(R)
FileByName(files, name) == files[CHOOSE i \in 1..Len(files) : files[i].name = name]
HasFile(files, name) == \E i \in 1..Len(files) : files[i].name = name

\* clauses of a run that should succeed, for destination `name` expected to hold trees Rs (with sids)
FileErrs(files, name, fmt, o, Rs, sids, pfx) ==
  IF ~HasFile(files, name) THEN {pfx \o ".file_missing"}
  ELSE LET d == Denotes(fmt, o, FileByName(files, name).rec) IN
       F(pfx \o ".count", Len(d) = Len(Rs)) \cup
       (IF Len(d) = Len(Rs) THEN
          F(pfx \o ".lossless", \A k \in 1..Len(Rs) : d[k].v = ExpValue(fmt, o, Rs[k])) \cup
          F(pfx \o ".sid", \A k \in 1..Len(Rs) : fmt = "export" => d[k].sid = sids[k])
        ELSE {})
PartRange(i) == LET ps == SpecRes.parts
                    before == FoldLeft(LAMBDA a, j : a + ps[j], 0, [j \in 1..(i - 1) |-> j])
                IN [lo |-> before + 1, hi |-> before + ps[i]]
\* the i-th part is DEST.(i-1) (the names are the specification's, not the harness's: a part that was not
\* written is a missing file, whatever else the run left behind)
PartFile(i) == "dest.out." \o ToString(i - 1)
RunErrs(e) ==
  IF ~ExpectOK THEN F("C03.refuses", e.rc # 0)
  ELSE IF e.rc # 0 THEN {IF SplitOn THEN "C17.exit0" ELSE "C03.exit0"}
  ELSE IF ~SplitOn THEN
     UNION {FileErrs(e.files, Case.destnames[i], Case.destfmt, DO, Kept(i), KeptSids(i), "C03") : i \in 1..NSrc}
  ELSE
     F("C17.parts", Len(e.files) = Len(SpecRes.parts)) \cup
     UNION {LET r == PartRange(i) IN
            FileErrs(e.files, PartFile(i), Case.destfmt, DO, SubSeq(Kept(1), r.lo, r.hi),
                     SubSeq(KeptSids(1), r.lo, r.hi), "C17.part") : i \in 1..Len(SpecRes.parts)}
\* what a written file carries for a tree: a field the tree has no value for is written with its documented
\* default (--), and that is what a reader of the written file gets
Written(T) == [T EXCEPT !.nodes = {[x EXCEPT !.a.lemma = Dflt(@, Dash2), !.a.morph = Dflt(@, Dash2),
                                             !.a.edge = Dflt(@, Dash2)] : x \in @}]
SelfReadErrs(e) ==       \* e.src = index of source file; e.events = yields of the tool's reader on the file it wrote
  IF ~ExpectOK \/ SplitOn THEN {}
  ELSE LET Rs == Kept(e.src)
           Y == SelectSeq(e.events, LAMBDA x : x.a = "yield") IN
       F("C03.self_readable",
         /\ \A k \in 1..Len(e.events) : e.events[k].a # "error"
         /\ Len(Y) = Len(Rs)
         /\ \A k \in 1..Len(Y) : WF(Y[k].g) /\
               GotRead(Case.destfmt, Abs(Y[k].g), {}) =
                 {Masked(Case.destfmt, x, {}, x.a) : x \in ReadTree(Case.destfmt, Written(Rs[k]), {}, "export_four" \in DO).nodes})
\* A -> B -> A and A -> B -> C : the file written by the second run (e.fmt = its format)
ChainWritable(e, Rs) == ~(e.fmt = "brackets" /\ \E k \in 1..Len(Rs) : GapDeg(Rs[k]) > 0)
BackErrs(e) ==
  IF ~ExpectOK \/ SplitOn \/ ~ChainWritable(e, Kept(e.src)) THEN {}
  ELSE IF e.rc # 0 THEN {IF e.fmt = Case.srcfmt THEN "C03.roundtrip.exit0" ELSE "C03.chain.exit0"}
  ELSE LET Rs == Kept(e.src)
           R2 == [k \in 1..Len(Rs) |-> ReadTree(Case.destfmt, Written(Rs[k]), {}, "export_four" \in DO)]
           sids2 == IF Case.destfmt \in {"brackets", "discobrackets"} THEN [k \in 1..Len(Rs) |-> k] ELSE KeptSids(e.src)
       IN FileErrs(e.files, e.name, e.fmt, {}, R2, sids2, IF e.fmt = Case.srcfmt THEN "C03.roundtrip" ELSE "C03.chain")

TInit == tid \in 1..Len(Cases) /\ l = 0 /\ errs = {} /\ done = FALSE
TStep == /\ ~done /\ l < Len(Case.events) /\ l' = l + 1
         /\ LET e == Case.events[l + 1] IN
            errs' = errs \cup {<<c, l + 1>> : c \in
               CASE e.a = "run" -> RunErrs(e) [] e.a = "selfread" -> SelfReadErrs(e)
                 [] e.a = "back" -> BackErrs(e) [] OTHER -> {"trace.unknown_event"}}
         /\ UNCHANGED <<tid, done>>
TDone == /\ ~done /\ l = Len(Case.events) /\ done' = TRUE
         /\ PrintT("VERDICT " \o ToJson(
              [id |-> Case.id, steps |-> l, failed |-> errs,
               tags |-> {Case.srcfmt, "dest_" \o Case.destfmt} \cup (IF SplitOn THEN {"split"} ELSE {}) \cup
                        (IF NSrc > 1 THEN {"directory"} ELSE {}),
               nontrivial |-> (ExpectOK /\ \E i \in 1..NSrc : Len(Kept(i)) > 0)]))
         /\ UNCHANGED <<tid, l, errs>>
TNext == TStep \/ TDone
=============================================================================

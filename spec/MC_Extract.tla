----------------------------- MODULE MC_Extract -----------------------------
(* Bounded model for C06/C08 (extraction): every tree within the bounds with *)
(* labels from a small alphabet; the reference extraction satisfies the      *)
(* instantiation, fan-out, count and flow clauses.  Each tree is a CASE.     *)
EXTENDS GrammarProps, TreeGen, Json
CONSTANTS N, MaxCons, MaxChain, CLabels, Tags
VARIABLES tree
Init == \E n \in 1..N : \E tg \in [1..n -> Tags] :
           tree = Flat(n, ConsAttr("VROOT", "--"),
                       [p \in 1..n |-> TokAttr("w" \o ToString(p % 2), tg[p], "--")])
Next == \E Y \in Cands(tree.n) : \E lab \in CLabels :
           /\ CanAdd(tree, Y, MaxCons, MaxChain)
           /\ tree' = AddCons(tree, Y, ConsAttr(lab, "--"))
G == RefRules(tree)
InvExtract ==
  /\ \A x \in CNodes(tree) : C06instantiates(tree, x, ExtractLin(tree, x)) /\ C06fanout(tree, x, ExtractLin(tree, x))
  /\ BagTotal(G) = Cardinality(CNodes(tree))
  /\ BagTotal(RefLex(tree)) = tree.n
  /\ IsContextFree(G) <=> (GapDeg(tree) = 0)
  /\ LhsTotals(SumVert(G), NodeLabelBag(tree))
  /\ Flow(SumVert(G), RefLex(tree), BagAdd(EmptyBag, Root(tree).a.lab, 1))
Emit == PrintT("CASE " \o ToJson([tree |-> tree]))
=============================================================================

------------------------------ MODULE Trace_Nav ------------------------------
(***************************************************************************)
(* Trace validation for C19 / C16: recorded answers of the real navigation *)
(* API and gap-degree functions are checked against the clauses of Nav.    *)
(* One behaviour per recorded case; one step per recorded API event; the   *)
(* verdict is total (a failing clause is recorded, the trace goes on).     *)
(***************************************************************************)
EXTENDS Nav, Json, IOUtils

Doc   == JsonDeserialize(IOEnv.TRACE_FILE)
Cases == Doc.cases

VARIABLES tid, l, at, errs, done
vars == <<tid, l, at, errs, done>>

\* abstract view of the case's (fixed) graph, computed once per behaviour
View(G) == [wf |-> WFClauses(G),
            T  |-> IF WF(G) THEN Abs(G) ELSE [n |-> 0, nodes |-> {}],
            nd |-> IF WF(G) THEN [i \in GIds(G) |-> AbsNode(G, i)] ELSE <<>>]

ND(i)  == IF i = 0 THEN NONE ELSE at.nd[i]
NDS(s) == [k \in 1..Len(s) |-> ND(s[k])]
NIds    == DOMAIN at.nd
T      == at.T

Fail(c, ok) == IF ok THEN {} ELSE {c}

EventErrs(e) ==
  IF e.res # "ok" THEN {"C19." \o e.a \o ".raised"}
  ELSE CASE e.a = "children" ->
         Fail("C19.children", \A i \in NIds : C19children(T, ND(i), NDS(e.out[i])))
    [] e.a = "terminals" ->
         Fail("C19.terminals", \A i \in NIds : C19terminals(T, ND(i), NDS(e.out[i])))
    [] e.a = "helpers" ->
         Fail("C19.terminals_unordered", \A i \in NIds : C19termset(T, ND(i), NDS(e.uterms[i]))) \cup
         Fail("C19.has_children", \A i \in NIds : C19haskids(T, ND(i), e.haskids[i]))
    [] e.a = "preorder" ->
         Fail("C19.preorder", \A i \in NIds : C19pre(T, ND(i), NDS(e.out[i])))
    [] e.a = "postorder" ->
         Fail("C19.postorder", \A i \in NIds : C19post(T, ND(i), NDS(e.out[i])))
    [] e.a = "siblings" ->
         Fail("C19.right_sibling", \A i \in NIds : C19right(T, ND(i), ND(e.right[i]))) \cup
         Fail("C19.left_sibling", \A i \in NIds : C19left(T, ND(i), ND(e.left[i]))) \cup
         Fail("C19.siblings_inverse",
              C19inverse(T, [x \in T.nodes |-> ND(e.right[CHOOSE i \in NIds : ND(i) = x])],
                            [x \in T.nodes |-> ND(e.left[CHOOSE i \in NIds : ND(i) = x])]))
    [] e.a = "dominance" ->
         Fail("C19.dominance", \A i \in NIds : C19dominance(T, ND(i), NDS(e.out[i])))
    [] e.a = "lca" ->
         Fail("C19.lca", \A i, j \in NIds : C19lca(T, ND(i), ND(j), ND(e.out[i][j])))
    [] e.a = "levels" ->
         Fail("C19.levels", \A i \in NIds : ~ND(i).tok => C19level(T, ND(i), e.out[i])) \cup
         Fail("C19.levels_groups",
              \A i \in NIds : ~ND(i).tok =>
                 \E g \in 1..Len(e.groups) :
                    e.groups[g][1] = e.out[i] /\ i \in SeqToSet(e.groups[g][2]))
    [] e.a = "numbering" ->
         \* (the numbering is about constituents: nothing to judge on the one-node tree)
         IF CNodes(T) = {} THEN {}
         ELSE Fail("C19.numbering",
                   C19numbering(T, [x \in CNodes(T) |-> e.num[CHOOSE i \in NIds : ND(i) = x]]))
    [] e.a = "gap_degree_node" ->
         Fail("C16.node", \A i \in NIds : C16node(ND(i), e.out[i]))
    [] e.a = "terminal_blocks" ->
         Fail("C16.blocks",
              \A i \in NIds : C16blocks(ND(i),
                  [b \in 1..Len(e.out[i]) |->
                     UNION {ND(e.out[i][b][k]).y : k \in 1..Len(e.out[i][b])}]) /\
                  \A b \in 1..Len(e.out[i]) : NDS(e.out[i][b]) =
                       SortedSeq({ND(e.out[i][b][k]) : k \in 1..Len(e.out[i][b])}, LeftTok))
    [] e.a = "gap_degree" ->
         Fail("C16.tree", C16tree(T, e.out))
    [] e.a = "three_notions" ->
         Fail("C16.three_notions", C16threeNotions(T, e.gd, e.refuses = "T", e.cf = "T"))
    [] e.a = "disco_order" ->
         Fail("C16.disco_order", C16discoOrder(T, NDS(e.left)) /\ C16discoOrder(T, NDS(e.rightd)))
    [] e.a = "analysis" ->
         LET TB == [k \in 1..Len(e.trees) |-> Abs(e.trees[k])] IN
         Fail("C16.report.totals",
              /\ \A k \in 1..Len(e.trees) : WF(e.trees[k])
              /\ C16reportGap(TB, e.ntrees, e.nnodes, e.pertree, e.pernode)
              /\ C16reportTags(TB, e.ntags) /\ C16reportCount(TB, e.nsent))
    [] OTHER -> {"trace.unknown_event"}

Case == Cases[tid]

TInit == /\ tid \in 1..Len(Cases)
         /\ l = 0 /\ done = FALSE
         /\ at = View(Cases[tid].init)
         /\ errs = {<<c, 0>> : c \in WFClauses(Cases[tid].init)}

\* "mutate": the tree objects were changed in place by an operation validated elsewhere (e.g. delete_terminal,
\* C11); the event carries the graph as it is now and the following answers are judged against that
TStep == /\ ~done /\ l < Len(Case.events) /\ at.wf = {}
         /\ l' = l + 1
         /\ LET e == Case.events[l + 1] IN
            IF e.a = "mutate"
            THEN /\ at' = View(e.g)
                 /\ UNCHANGED errs      \* (an ill-formed result is the other operation's matter: the trace ends here)
            ELSE /\ errs' = errs \cup {<<c, l + 1>> : c \in EventErrs(e)}
                 /\ UNCHANGED at
         /\ UNCHANGED <<tid, done>>

TDone == /\ ~done /\ (l = Len(Case.events) \/ at.wf # {})
         /\ done' = TRUE
         /\ PrintT("VERDICT " \o ToJson(
               [id |-> Case.id, steps |-> l, failed |-> errs,
                tags |-> (IF at.wf = {} /\ GapDeg(T) > 0 THEN {"discontinuous"} ELSE {}) \cup
                         (IF at.wf = {} /\ \E x, z \in CNodes(T) : x # z /\ x.y = z.y
                          THEN {"unary"} ELSE {}),
                nontrivial |-> (at.wf = {} /\ Cardinality(CNodes(T)) > 1),
                unexamined |-> Len(Case.events) - l]))
         /\ UNCHANGED <<tid, l, at, errs>>

TNext == TStep \/ TDone
=============================================================================

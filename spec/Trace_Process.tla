---------------------------- MODULE Trace_Process ----------------------------
(***************************************************************************)
(* Trace validation for C18.  Events of a case (one harness process):      *)
(*   call   : a call of the history; `out` = its result in this process,   *)
(*            `fresh` = the result of the same call in a fresh process     *)
(*   concat : results for corpora A, B and A+B                             *)
(*   repeat : the same command run again (other hash seed)                 *)
(* Results are arbitrary JSON values compared structurally; for files that *)
(* represent sets (`setlike`) sequences are compared as multisets.         *)
(* The Process state machine is stepped along the calls (cache, newid).    *)
(***************************************************************************)
EXTENDS Process, SequencesExt, Json, IOUtils
Doc   == JsonDeserialize(IOEnv.TRACE_FILE)
Cases == Doc.cases
VARIABLES tid, l, errs, done
Case == Cases[tid]
F(name, ok) == IF ok THEN {} ELSE {name}
Count(s, v) == Cardinality({i \in 1..Len(s) : s[i] = v})
SameBag(s, t) == Len(s) = Len(t) /\ \A i \in 1..Len(s) : Count(s, s[i]) = Count(t, s[i])
Same(e, x, y) == IF e.setlike = "T" THEN SameBag(x, y) ELSE x = y

TInit == /\ tid \in 1..Len(Cases) /\ l = 0 /\ errs = {} /\ done = FALSE
         /\ newid = 0 /\ cache = [o \in TermOps |-> NoCache]
         /\ files = [f \in {} |-> "~"] /\ hist = <<>> /\ last = "~"
TCall == /\ ~done /\ l < Len(Case.events) /\ Case.events[l + 1].a = "call" /\ l' = l + 1
         /\ LET e == Case.events[l + 1]
                c == [op |-> e.op, file |-> e.file, sent |-> e.sent]
                fs == [f \in DOMAIN files \cup (IF e.file = "~" THEN {} ELSE {e.file}) |->
                         IF f = e.file THEN e.rows ELSE files[f]]
                st == [newid |-> newid, cache |-> cache, files |-> fs]
            IN /\ errs' = errs \cup {<<c2, l + 1>> : c2 \in
                     F("C18.history_independent", Same(e, e.out, e.fresh)) \cup
                     \* the discipline of the model: a file name keeps its content within a history
                     F("machinery.file_discipline", e.file = "~" \/ e.file \notin DOMAIN files \/ files[e.file] = e.rows)}
               /\ files' = fs /\ newid' = Step(c, st).newid /\ cache' = Step(c, st).cache
               /\ hist' = Append(hist, c) /\ last' = Res(c, st)
         /\ UNCHANGED <<tid, done>>
TConcat == /\ ~done /\ l < Len(Case.events) /\ Case.events[l + 1].a = "concat" /\ l' = l + 1
           /\ LET e == Case.events[l + 1] IN
              errs' = errs \cup {<<c, l + 1>> : c \in
                 F(IF e.kind = "sum" THEN "C18.sum" ELSE "C18.concat",
                   IF e.kind = "sum"
                   THEN LET cnt(s, k) == FoldLeft(LAMBDA acc, i : acc + (IF s[i].k = k THEN s[i].n ELSE 0), 0,
                                                  [i \in 1..Len(s) |-> i])
                            keys == {e.ab[i].k : i \in 1..Len(e.ab)} \cup {e.a_[i].k : i \in 1..Len(e.a_)}
                                    \cup {e.b_[i].k : i \in 1..Len(e.b_)}
                        IN \A k \in keys : cnt(e.ab, k) = cnt(e.a_, k) + cnt(e.b_, k)
                   ELSE Same(e, e.ab, e.a_ \o e.b_))}
           /\ UNCHANGED <<tid, done, newid, cache, files, hist, last>>
TRepeat == /\ ~done /\ l < Len(Case.events) /\ Case.events[l + 1].a = "repeat" /\ l' = l + 1
           /\ LET e == Case.events[l + 1] IN
              errs' = errs \cup {<<c, l + 1>> : c \in F("C18.repeatable", Same(e, e.out1, e.out2))}
           /\ UNCHANGED <<tid, done, newid, cache, files, hist, last>>
TDone == /\ ~done /\ l = Len(Case.events) /\ done' = TRUE
         /\ PrintT("VERDICT " \o ToJson([id |-> Case.id, steps |-> l, failed |-> errs, tags |-> {},
                                        nontrivial |-> (Len(hist) > 1 \/ l > 0)]))
         /\ UNCHANGED <<tid, l, errs, newid, cache, files, hist, last>>
TNext == TCall \/ TConcat \/ TRepeat \/ TDone
=============================================================================

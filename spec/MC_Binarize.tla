----------------------------- MODULE MC_Binarize -----------------------------
(***************************************************************************)
(* Bounded model for C07: ALL ordered, non-deleting, non-erasing LCFRS     *)
(* rules in canonical form with rank <= R and at most V variable           *)
(* occurrences are built (phase "build"), then binarized by the chain      *)
(* construction one RHS element per action (BinStart, BinStep*, BinLast)   *)
(* under every mode; the C07 clauses must hold of the produced rules.      *)
(***************************************************************************)
EXTENDS GrammarProps, Json
CONSTANTS R, V, Modes, SameLabels
VARIABLES vars, phase, mode, st, out
\* vars: sequence of arguments, each a sequence of variable indices (0-based)
AllV == UNION {{vars[a][j] : j \in 1..Len(vars[a])} : a \in 1..Len(vars)}
NVars == SumOver(1..Len(vars), LAMBDA a : Len(vars[a]))
NextNew == IF AllV = {} THEN 0 ELSE SetMax(AllV) + 1
Func == <<"A">> \o [i \in 1..Cardinality(AllV) |-> IF SameLabels THEN "B" ELSE "B" \o ToString(i)]
Lin == LET K(a, j) == Cardinality({q \in Pairs(vars) : vars[q[1]][q[2]] = vars[a][j] /\ Before(q, <<a, j>>)})
       IN [a \in 1..Len(vars) |-> [j \in 1..Len(vars[a]) |-> <<vars[a][j], K(a, j)>>]]
VertCtx == <<"A" \o ToString(Len(vars)), "S1">>

Init == vars = << <<0>> >> /\ phase = "build" /\ mode = [reorder |-> "none", markov |-> FALSE, v |-> 0, h |-> 0, nofanout |-> FALSE]
        /\ st = <<>> /\ out = <<>>
AddVar(i) == /\ phase = "build" /\ NVars < V /\ i <= NextNew /\ i < R
             /\ LET a == Len(vars) IN
                /\ (IF vars[a] = <<>> THEN TRUE ELSE vars[a][Len(vars[a])] # i)
                /\ vars' = [vars EXCEPT ![a] = Append(@, i)]
             /\ UNCHANGED <<phase, mode, st, out>>
NewArg == /\ phase = "build" /\ vars[Len(vars)] # <<>> /\ NVars < V
          /\ vars' = Append(vars, <<>>) /\ UNCHANGED <<phase, mode, st, out>>
Reordered == IF mode.reorder = "optimal" THEN ReorderOptimal(Func, Lin) ELSE [func |-> Func, lin |-> Lin]
LabOp(m, q, pos) == IF m.markov THEN MarkovLabel(q.func, pos, VertCtx, FanOutOf(q.lin), m) ELSE DetLabel(pos + 1)
Seal(m) == /\ phase = "build" /\ vars[Len(vars)] # <<>> /\ mode' = m
           /\ LET q == IF m.reorder = "optimal" THEN ReorderOptimal(Func, Lin) ELSE [func |-> Func, lin |-> Lin] IN
              IF RankOf(Func) <= 2
              THEN phase' = "done" /\ out' = << q >> /\ st' = <<>>
              ELSE /\ phase' = "chain"
                   /\ st' = BinStart(q.func, q.lin, LAMBDA pos : LabOp(m, q, pos))
                   /\ out' = <<>>
           /\ UNCHANGED vars
ChainStep == /\ phase = "chain" /\ st.pos < RankOf(st.func) - 3
             /\ st' = BinStep(st, LAMBDA pos : LabOp(mode, Reordered, pos))
             /\ UNCHANGED <<vars, phase, mode, out>>
ChainLast == /\ phase = "chain" /\ st.pos = RankOf(st.func) - 3
             /\ out' = BinLast(st) /\ phase' = "done" /\ UNCHANGED <<vars, mode, st>>
Next == (\E i \in 0..(R - 1) : AddVar(i)) \/ NewArg \/ (\E m \in Modes : Seal(m)) \/ ChainStep \/ ChainLast

Gin == BagAdd(EmptyBag, [func |-> Func, lin |-> Lin, vert |-> VertCtx], 1)
Gout == [g \in {out[i] : i \in 1..Len(out)} |-> 1]
InvC07 == phase = "done" => C07(Gin, Gout, mode) = {}
\* the stepwise machine equals the one-shot operator
InvMachine == phase = "done" =>
   out = BinarizeRule(Reordered.func, Reordered.lin, LAMBDA pos : LabOp(mode, Reordered, pos))
Emit == (phase = "done" /\ mode = [reorder |-> "none", markov |-> FALSE, v |-> 0, h |-> 0, nofanout |-> FALSE])
           => PrintT("CASE " \o ToJson([func |-> Func, lin |-> Lin]))
=============================================================================

---------------------------- MODULE GrammarFiles ----------------------------
(***************************************************************************)
(* Grammar and lexicon file formats (trees/grammaroutput.py, grammarinput) *)
(* as independent decoders over LEXICAL RECORDS (property C09).  The       *)
(* harness only splits lines into tokens; which line is what, whether      *)
(* references resolve and which grammar a file denotes is decided here.    *)
(*   PMCFG line record : [toks, cnt, pairs]                                *)
(*   RCG   line record : [cnt, arrow, preds] , pred = [name, args]         *)
(*   other files       : [toks, cnt]                                       *)
(***************************************************************************)
EXTENDS GrammarProps

Idx(L) == 1..Len(L)
\* ---- PMCFG ----
RuleLn(L) == {i \in Idx(L) : Len(L[i].toks) >= 4 /\ L[i].toks[2] = ":" /\ L[i].toks[4] = "<-"}
LinLn(L)  == {i \in Idx(L) : Len(L[i].toks) >= 2 /\ L[i].toks[2] = "="}
SeqLn(L)  == {i \in Idx(L) : Len(L[i].toks) >= 2 /\ L[i].toks[2] = "->"}
CntLn(L)  == {i \in Idx(L) : Len(L[i].toks) = 2 /\ L[i].cnt >= 0 /\ i \notin SeqLn(L) /\ i \notin LinLn(L)}
Funs(L)   == {L[i].toks[1] : i \in RuleLn(L)}
One(S) == Cardinality(S) = 1
PmcfgWF(L) ==
  /\ RuleLn(L) \cup LinLn(L) \cup SeqLn(L) \cup CntLn(L) = Idx(L)
  /\ \A f \in Funs(L) : /\ One({i \in RuleLn(L) : L[i].toks[1] = f})
                        /\ One({i \in LinLn(L) : L[i].toks[1] = f})
                        /\ One({i \in CntLn(L) : L[i].toks[1] = f})
  /\ \A i \in LinLn(L) \cup CntLn(L) : L[i].toks[1] \in Funs(L)
  /\ \A i \in LinLn(L) : \A a \in 3..Len(L[i].toks) : One({j \in SeqLn(L) : L[j].toks[1] = L[i].toks[a]})
  /\ \A i, j \in SeqLn(L) : i # j => L[i].toks[1] # L[j].toks[1]
PmcfgRule(L, f) ==
  LET r == L[CHOOSE i \in RuleLn(L) : L[i].toks[1] = f].toks
      l == L[CHOOSE i \in LinLn(L) : L[i].toks[1] = f].toks
      sq(s) == L[CHOOSE j \in SeqLn(L) : L[j].toks[1] = s].pairs
  IN [func |-> <<r[3]>> \o SubSeq(r, 5, Len(r)), lin |-> [a \in 1..(Len(l) - 2) |-> sq(l[a + 2])]]
PmcfgCnt(L, f) == L[CHOOSE i \in CntLn(L) : L[i].toks[1] = f].cnt
DecodePMCFG(L) ==
  [g \in {PmcfgRule(L, f) : f \in Funs(L)} |->
     SumOver({f \in Funs(L) : PmcfgRule(L, f) = g}, LAMBDA f : PmcfgCnt(L, f))]

\* ---- RCG ----
RcgWF(L) == \A i \in Idx(L) :
  /\ L[i].arrow = "-->" /\ L[i].cnt >= 0 /\ Len(L[i].preds) >= 1
  /\ \A p \in 2..Len(L[i].preds) : \A k \in 1..Len(L[i].preds[p].args) : Len(L[i].preds[p].args[k]) = 1
LabelFor(Syms, name, ar) ==
  IF \E s \in Syms : s \o ToString(ar) = name THEN CHOOSE s \in Syms : s \o ToString(ar) = name ELSE "?" \o name
RcgRule(Syms, ln) ==
  LET ps == ln.preds
      lhs == ps[1].args
      pos(v) == CHOOSE q \in UNION {{<<p, k>> : k \in 1..Len(ps[p].args)} : p \in 2..Len(ps)} :
                   ps[q[1]].args[q[2]] = <<v>>
  IN [func |-> [p \in 1..Len(ps) |-> LabelFor(Syms, ps[p].name, Len(ps[p].args))],
      lin |-> [a \in 1..Len(lhs) |-> [j \in 1..Len(lhs[a]) |-> <<pos(lhs[a][j])[1] - 2, pos(lhs[a][j])[2] - 1>>]]]
RcgVarsOK(ln) ==
  LET ps == ln.preds
      lv == UNION {{ps[1].args[a][j] : j \in 1..Len(ps[1].args[a])} : a \in 1..Len(ps[1].args)}
      rv == UNION {{ps[p].args[k][1] : k \in 1..Len(ps[p].args)} : p \in 2..Len(ps)}
  IN lv = rv /\ Cardinality(lv) = SumOver(1..Len(ps[1].args), LAMBDA a : Len(ps[1].args[a]))
     /\ Cardinality(rv) = SumOver(2..Len(ps), LAMBDA p : Len(ps[p].args))
DecodeRCG(Syms, L) ==
  [g \in {RcgRule(Syms, L[i]) : i \in Idx(L)} |->
     SumOver({i \in Idx(L) : RcgRule(Syms, L[i]) = g}, LAMBDA i : L[i].cnt)]

\* ---- lexicon files:  word  tag cnt  tag cnt ... ----
LexWF(L) == \A i \in Idx(L) : Len(L[i].toks) >= 3 /\ Len(L[i].toks) % 2 = 1 /\ Len(L[i].nums) = Len(L[i].toks)
DecodeLex(L) ==
  LET E == UNION {{<<i, k>> : k \in 1..((Len(L[i].toks) - 1) \div 2)} : i \in Idx(L)}
      key(e) == <<L[e[1]].toks[1], L[e[1]].toks[2 * e[2]]>>
  IN [w \in {key(e) : e \in E} |-> SumOver({e \in E : key(e) = w}, LAMBDA e : L[e[1]].nums[2 * e[2] + 1])]

\* ---- LoPar: .gram "cnt LHS RHS...", .start / .oc / .OC "sym cnt" ----
DecodeLoparGram(L) ==
  [g \in {[func |-> Tail(L[i].toks), lin |-> << [j \in 1..(Len(L[i].toks) - 2) |-> <<j - 1, 0>>] >>] : i \in Idx(L)} |->
     SumOver({i \in Idx(L) : Tail(L[i].toks) = g.func}, LAMBDA i : L[i].nums[1])]
\* a context-free rule in yield order (the only form LoPar can carry)
NormCF(g) == [func |-> <<g.func[1]>> \o [j \in 1..Len(g.lin[1]) |-> g.func[g.lin[1][j][1] + 2]],
              lin |-> << [j \in 1..Len(g.lin[1]) |-> <<j - 1, 0>>] >>]
NormCFBag(G) == [n \in {NormCF(g) : g \in DOMAIN G} |-> SumOver({g \in DOMAIN G : NormCF(g) = n}, LAMBDA g : G[g])]
DecodePairs(L) == [s \in {L[i].toks[1] : i \in Idx(L)} |->
                     SumOver({i \in Idx(L) : L[i].toks[1] = s}, LAMBDA i : L[i].nums[2])]
StartSyms(G) == LET lhs == {g.func[1] : g \in DOMAIN G}
                    rhs == UNION {{g.func[i] : i \in 2..Len(g.func)} : g \in DOMAIN G}
                IN [s \in lhs \ rhs |-> SumOver({g \in DOMAIN G : g.func[1] = s}, LAMBDA g : G[g])]
\* caps: set of words whose first character is upper case (a lexical fact logged by the harness)
OcBag(lex, caps, upper) ==
  LET E == {e \in DOMAIN lex : (e[1] \in caps) = upper} IN
  [t \in {e[2] : e \in E} |-> SumOver({e \in E : e[2] = t}, LAMBDA e : lex[e])]

\* lexical rules embedded in the grammar: TAG <- word, one argument <<0,0>>
LexRules(G, words) == {g \in DOMAIN G : Len(g.func) = 2 /\ g.func[2] \in words /\ g.lin = << << <<0, 0>> >> >>}
LexFromGram(G, words) == [e \in {<<g.func[2], g.func[1]>> : g \in LexRules(G, words)} |->
                            SumOver({g \in LexRules(G, words) : <<g.func[2], g.func[1]>> = e}, LAMBDA g : G[g])]
WithoutLex(G, words) == [g \in DOMAIN G \ LexRules(G, words) |-> G[g]]
=============================================================================

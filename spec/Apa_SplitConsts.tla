---- MODULE Apa_SplitConsts ----
(* default constants of Apa_Split; the check writes its own copy into the scratch directory *)
\* @type: Set(Str);
DevC == {}
MaxPartsC == 2
====

------------------------------ MODULE Transform ------------------------------
(***************************************************************************)
(* Tree transformations of trees/transform.py on the abstract tree.        *)
(*                                                                         *)
(* REFERENCE LEVEL: one deterministic operator per public transformation,  *)
(* implementation-shaped (same order of processing; targets evaluated on   *)
(* the current tree), with named deviations selected by Dev.               *)
(* PROPERTY LEVEL: the clauses of C04 C05 C11 C12 C13 C14 C15 as           *)
(* predicates over (pre, post); only these produce verdicts.               *)
(*                                                                         *)
(* In this family node labels (a.lab) are CHARACTER SEQUENCES, words and   *)
(* edges are atoms.                                                        *)
(***************************************************************************)
EXTENDS TreeModel, Labels

CONSTANTS PUNCT, PAIRPUNCT        \* word inventories, exported from the code under test

SetHead(x, v) == [x EXCEPT !.a.head = v]
JoinPlus(a, b) == a \o <<"+">> \o b

-----------------------------------------------------------------------------
(* moving a subtree: the basic edit of the re-attachment transformations    *)
Move(T, x, t) ==
  LET oa == Ancs(T, x)
      na == {t} \cup Ancs(T, t)
      upd(n) == IF n \in oa \ na THEN [n EXCEPT !.y = @ \ x.y]
                ELSE IF n \in na \ oa THEN [n EXCEPT !.y = @ \cup x.y]
                ELSE n
  IN [T EXCEPT !.nodes = Norm({upd(n) : n \in T.nodes})]

-----------------------------------------------------------------------------
(* root_attach (C12): the documented rule as a fold over the root children  *)
RECURSIVE ScanRight(_, _, _, _)
ScanRight(sibs, i, fmax, tr) ==
  IF i > Len(sibs) THEN tr
  ELSE LET s == sibs[i] IN
       IF SetMin(s.y) < fmax THEN ScanRight(sibs, i + 1, fmax, tr)         \* interleaved: skip
       ELSE IF SetMin(s.y) > fmax + 1 THEN tr                              \* gap: done
       ELSE ScanRight(sibs, i + 1, SetMax(s.y), SetMax(s.y) + 1)           \* adjacent: extend

RECURSIVE RAFold(_, _)
RAFold(T, keys) ==
  IF keys = <<>> THEN T
  ELSE LET r    == Root(T)
           c    == CHOOSE k \in Kids(T, r) : Head(keys) \in k.y
           sibs == KidsSeq(T, r)
           ci   == CHOOSE i \in 1..Len(sibs) : sibs[i] = c
           tl   == SetMin(c.y) - 1
           tr   == ScanRight(sibs, ci + 1, SetMax(c.y), SetMax(c.y) + 1)
       IN IF tl < 1 \/ tr > T.n THEN RAFold(T, Tail(keys))
          ELSE LET tgt == Lowest(CommonAncs(T, Tok(T, tl), Tok(T, tr)))
               IN RAFold(IF tgt = r THEN T ELSE Move(T, c, tgt), Tail(keys))
RootAttach(T) ==
  LET ks == KidsSeq(T, Root(T)) IN
  RAFold(T, [i \in 1..Len(ks) |-> SetMin(ks[i].y)])

-----------------------------------------------------------------------------
(* head marking (C15) *)
NegraHeadIdx(ks) ==
  LET HD == {i \in 1..Len(ks) : ks[i].a.edge = "HD"}
      NK == {i \in 1..Len(ks) : ks[i].a.edge = "NK"}
  IN IF HD # {} THEN SetMin(HD) ELSE IF NK # {} THEN SetMax(NK) ELSE 1
NegraMarkHeads(T) ==
  [T EXCEPT !.nodes =
     {IF ~HasParent(T, x) THEN SetHead(x, "F")
      ELSE LET ks == KidsSeq(T, Parent(T, x)) IN
           SetHead(x, IF ks[NegraHeadIdx(ks)] = x THEN "T" ELSE "F") : x \in T.nodes}]

\* Collins-style rules: rules[parentcat] = << <<dir, <<cat, ...>> >>, ... >>, all lower case
LowerTab == [c \in {"A","B","C","D","E","F","G","H","I","J","K","L","M","N","O","P","Q","R",
                    "S","T","U","V","W","X","Y","Z"} |->
             CASE c = "A" -> "a" [] c = "B" -> "b" [] c = "C" -> "c" [] c = "D" -> "d"
               [] c = "E" -> "e" [] c = "F" -> "f" [] c = "G" -> "g" [] c = "H" -> "h"
               [] c = "I" -> "i" [] c = "J" -> "j" [] c = "K" -> "k" [] c = "L" -> "l"
               [] c = "M" -> "m" [] c = "N" -> "n" [] c = "O" -> "o" [] c = "P" -> "p"
               [] c = "Q" -> "q" [] c = "R" -> "r" [] c = "S" -> "s" [] c = "T" -> "t"
               [] c = "U" -> "u" [] c = "V" -> "v" [] c = "W" -> "w" [] c = "X" -> "x"
               [] c = "Y" -> "y" [] c = "Z" -> "z"]
Lower(s) == [i \in 1..Len(s) |-> IF s[i] \in DOMAIN LowerTab THEN LowerTab[s[i]] ELSE s[i]]
Cat(lab) == Lower(Category(Lower(lab)))
HasRule(rules, pc) == \E i \in 1..Len(rules) : rules[i][1] = pc
RuleOf(rules, pc) == rules[CHOOSE i \in 1..Len(rules) : rules[i][1] = pc][2]
Listed(rules, pc, c) ==
  HasRule(rules, pc) /\ \E r \in 1..Len(RuleOf(rules, pc)) :
     \E k \in 1..Len(RuleOf(rules, pc)[r][2]) : RuleOf(rules, pc)[r][2][k] = c
\* documented interpreter: rules in order, categories in priority order, scan in direction
RECURSIVE RuleScan(_, _, _)
RuleScan(rs, r, cats) ==     \* 0 = nothing found
  IF r > Len(rs) THEN 0
  ELSE LET dir == rs[r][1]  pri == rs[r][2] IN
       IF Len(pri) = 0 THEN (IF dir = "left-to-right" THEN Len(cats) ELSE 1)
       ELSE LET hits == {k \in 1..Len(pri) : \E i \in 1..Len(cats) : cats[i] = pri[k]} IN
            IF hits = {} THEN RuleScan(rs, r + 1, cats)
            ELSE LET k == SetMin(hits)
                     I == {i \in 1..Len(cats) : cats[i] = pri[k]}
                 IN IF dir = "left-to-right" THEN SetMin(I) ELSE SetMax(I)
RuleHeadIdx(rules, pc, cats) ==
  IF ~HasRule(rules, pc) THEN 1
  ELSE LET h == RuleScan(RuleOf(rules, pc), 1, cats) IN IF h = 0 THEN 1 ELSE h
RuleMarkHeads(T, rules) ==
  [T EXCEPT !.nodes =
     {IF ~HasParent(T, x) THEN SetHead(x, "F")
      ELSE LET p == Parent(T, x)  ks == KidsSeq(T, p)
               h == RuleHeadIdx(rules, Cat(p.a.lab), [i \in 1..Len(ks) |-> Cat(ks[i].a.lab)])
           IN SetHead(x, IF ks[h] = x THEN "T" ELSE "F") : x \in T.nodes}]

HeadsMarked(T) == \A x \in T.nodes : x.a.head \in {"T", "F"}
OneHead(T) == \A c \in CNodes(T) : Cardinality({k \in Kids(T, c) : k.a.head = "T"}) = 1

-----------------------------------------------------------------------------
(* crossing-branch removal (C05) *)
HeadKid(T, c) == CHOOSE k \in Kids(T, c) : k.a.head = "T"
RECURSIVE HeadPos(_, _)
HeadPos(T, x) == IF x.tok THEN SetMin(x.y) ELSE HeadPos(T, HeadKid(T, x))
HeadRun(T, c) == RunOf(c.y, HeadPos(T, c))

Pieces(T, x) ==
  IF x.tok \/ Cardinality(Runs(x.y)) = 1
  THEN {[x EXCEPT !.a.split = "F", !.a.hb = "T"]}
  ELSE LET rs == RunsSeq(x.y)  hr == HeadRun(T, x) IN
       \* the block nodes are NEW nodes (the code creates fresh objects and unhooks the original)
       {[x EXCEPT !.y = rs[i], !.a.split = "T", !.a.bn = i, !.a.id = 0,
                  !.a.hb = IF rs[i] = hr THEN "T" ELSE "F"] : i \in 1..Len(rs)}
BoydSplit(T) == [T EXCEPT !.nodes = Norm(UNION {Pieces(T, x) : x \in T.nodes})]
Raising(T) ==
  [T EXCEPT !.nodes = Norm({x \in T.nodes : ~(x.a.split = "T" /\ x.a.hb = "F") \/ x.d = 0})]
\* the declarative statement of the property: every constituent keeps its head run
CrossFreeShape(T) ==
  Shape([T EXCEPT !.nodes = Norm({IF x.tok THEN x ELSE [x EXCEPT !.y = HeadRun(T, x)] : x \in T.nodes})])

-----------------------------------------------------------------------------
(* add_topnode *)
TopAttr == [NoAttr EXCEPT !.lab = <<"T", "O", "P">>, !.lemma = "--", !.morph = "--", !.edge = "--"]
AddTopnode(T) ==
  [T EXCEPT !.nodes = Norm(@ \cup {[y |-> 1..T.n, d |-> -1, tok |-> FALSE, a |-> TopAttr]})]

-----------------------------------------------------------------------------
(* punctuation re-attachment (C13) *)
\* The inventories are data of the implementation and may grow, but the marks they are documented with
\* (trees.py: quotes, the three bracket pairs and their PTB names, sentence and clause marks) must stay in
\* them: a mark that drops out is silently no longer moved or deleted.
DocQuotes   == {"\"", "'", "''", "`", "``"}
DocBrackets == {"(", ")", "[", "]", "{", "}", "-LRB-", "-RRB-", "-LSB-", "-RSB-", "-LCB-", "-RCB-"}
DocMarks    == {".", ",", ";", "?", "!", "--", ":", "-", "/", "..."}
InventoryOK == /\ DocQuotes \cup DocBrackets \subseteq PAIRPUNCT
               /\ DocQuotes \cup DocBrackets \cup DocMarks \subseteq PUNCT
               /\ PAIRPUNCT \subseteq PUNCT
IsPunct(x) == x.a.word \in PUNCT
IsPair(x)  == x.a.word \in PAIRPUNCT
PunctPos(T) == {p \in 1..T.n : IsPunct(Tok(T, p))}
AscSeq(S) == SortedSeq(S, LAMBDA v : v)

RECURSIVE PVFold(_, _)
PVFold(T, ps) ==
  IF ps = <<>> THEN T
  ELSE LET e   == Tok(T, Head(ps))
           par == Parent(T, e)
           tgt == Parent(T, Tok(T, Head(ps) - 1))
       IN PVFold(IF (\E k \in Kids(T, par) : ~IsPunct(k)) /\ tgt # par THEN Move(T, e, tgt) ELSE T,
                 Tail(ps))
PunctVerylow(T) == PVFold(T, AscSeq(PunctPos(T) \ {1}))

RECURSIVE PRFold(_, _, _)
PRFold(T, ps, T0) ==
  IF ps = <<>> THEN T
  ELSE LET e == Tok(T, Head(ps))  par == Parent(T, e)
           \* the guard "not the last child" is evaluated when moving; the deviation
           \* punct_root_no_guard evaluates it once on the initial tree (code before the fix)
           ok == IF "punct_root_no_guard" \in Dev
                 THEN Cardinality(Kids(T0, Parent(T0, Tok(T0, Head(ps))))) > 1
                 ELSE Cardinality(Kids(T, par)) > 1
       IN PRFold(IF ok /\ par # Root(T) THEN Move(T, e, Root(T)) ELSE T, Tail(ps), T0)
PunctRoot(T) == PRFold(T, AscSeq(PunctPos(T)), T)

\* symetrify: st = [T, done]; relc = <<>> or a tag (char sequence)
SymCand(T, relc) ==
  {p \in 1..T.n : \/ IsPair(Tok(T, p))
                  \/ (relc # <<>> /\ p < T.n /\ Tok(T, p + 1).a.lab = relc)}
SymTry(st, p, q) ==     \* try to pull token q (a neighbour position) into the parent of token p
  LET T == st.T  cand == Tok(T, q)  par == Parent(T, Tok(T, p)) IN
  IF IsPair(cand) /\ q \notin st.done
     /\ ("symetrify_no_guard" \in Dev \/ Cardinality(Kids(T, Parent(T, cand))) > 1)
  THEN [T |-> Move(T, cand, par), done |-> st.done \cup {p, q}]
  ELSE st
RECURSIVE SymFold(_, _)
SymFold(st, ps) ==
  IF ps = <<>> THEN st.T
  ELSE LET p == Head(ps) IN
       IF p \in st.done THEN SymFold(st, Tail(ps))
       ELSE LET lm  == SetMin(Parent(st.T, Tok(st.T, p)).y)
                st1 == IF lm # 1 THEN SymTry(st, p, lm - 1) ELSE st
            IN IF p \in st1.done THEN SymFold(st1, Tail(ps))
               ELSE LET rm  == SetMax(Parent(st1.T, Tok(st1.T, p)).y)
                        st2 == IF rm # st1.T.n THEN SymTry(st1, p, rm + 1) ELSE st1
                    IN SymFold(st2, Tail(ps))
PunctSym(T, relc) == SymFold([T |-> T, done |-> {}], AscSeq(SymCand(T, relc)))

-----------------------------------------------------------------------------
(* binarization, collapsing (C14) *)
RECURSIVE BinGo(_, _)
BinGo(rem, dir) ==     \* yields of the new @-nodes, outermost first
  IF Len(rem) <= 2 THEN <<>>
  ELSE LET d2   == IF rem[1].a.head = "T" THEN "right" ELSE dir
           rem2 == IF d2 = "left" THEN Tail(rem) ELSE Front(rem)
       IN <<UNION {rem2[i].y : i \in 1..Len(rem2)}>> \o BinGo(rem2, d2)
BinAttr(lab, bare) ==
  [NoAttr EXCEPT !.lab = IF bare THEN <<"@">> ELSE <<"@">> \o NoCoindex(lab),
                 !.word = "?empty", !.lemma = "--", !.morph = "--", !.edge = "--", !.head = "T"]
BinNodes(T, x, bare) ==
  LET ys == BinGo(KidsSeq(T, x), "left") IN
  {[y |-> ys[i], d |-> 1000 * x.d + i, tok |-> FALSE, a |-> BinAttr(x.a.lab, bare)] : i \in 1..Len(ys)}
BinarizeEnabled(T) == \A x \in CNodes(T) : Cardinality(Kids(T, x)) > 2 =>
                         \A k \in Kids(T, x) : k.a.head \in {"T", "F"}
Binarize(T, bare) ==
  [T EXCEPT !.nodes = Norm({[x EXCEPT !.d = 1000 * @] : x \in T.nodes} \cup
                           UNION {BinNodes(T, x, bare) : x \in CNodes(T)})]

ChainOf(T, Y) == SetToSortSeq({x \in T.nodes : x.y = Y},
                              LAMBDA u, v : (~u.tok /\ v.tok) \/ (u.tok = v.tok /\ u.d < v.d))
Collapse(T) ==
  LET merged(Y) ==
        LET ch == ChainOf(T, Y)  top == ch[1]  bot == ch[Len(ch)]
            lab == FoldLeft(LAMBDA acc, x : JoinPlus(acc, x.a.lab), top.a.lab, Tail(ch))
        IN [y |-> Y, d |-> top.d, tok |-> bot.tok,
            a |-> [top.a EXCEPT !.lab = lab,
                                !.word = IF bot.tok /\ Len(ch) > 1 THEN bot.a.word ELSE @,
                                !.lemma = IF bot.tok /\ Len(ch) > 1 THEN bot.a.lemma ELSE @]]
  IN [T EXCEPT !.nodes = Norm({merged(Y) : Y \in {x.y : x \in T.nodes}})]

RECURSIVE SplitPlus(_)
SplitPlus(s) == LET p == LFind(s, "+") IN
                IF p = 0 THEN <<s>> ELSE <<Prefix(s, p - 1)>> \o SplitPlus(Suffix(s, p + 1))
Uncollapse(T) ==
  LET parts(x) == SplitPlus(x.a.lab)
      exp(x) == LET ps == parts(x)  k == Len(ps) IN
                {[y |-> x.y, d |-> 1000 * x.d - (k - i), tok |-> FALSE,
                  a |-> [x.a EXCEPT !.lab = ps[i]]] : i \in 1..(k - 1)} \cup
                {[x EXCEPT !.d = 1000 * @, !.a.lab = ps[k]]}
  IN [T EXCEPT !.nodes = Norm(UNION {exp(x) : x \in T.nodes})]
\* which node uncollapse_unary_chains returns: the root; the as-is code returns the
\* unary node created last above the (old) root
UncollapseRetIsRoot(T) ==
  ~("uncollapse_returns_last_inserted" \in Dev /\ Len(SplitPlus(Root(T).a.lab)) >= 3)

-----------------------------------------------------------------------------
(* token editing (C11) *)
Rank(q, P) == q - Cardinality({r \in P : r < q})
DeleteToks(T, P) ==
  [n |-> T.n - Cardinality(P),
   nodes |-> Norm({[x EXCEPT !.y = {Rank(q, P) : q \in x.y \ P}] :
                      x \in {z \in T.nodes : ~(z.y \subseteq P)}})]
PunctDelete(T) == IF PunctPos(T) = 1..T.n THEN T ELSE DeleteToks(T, PunctPos(T))
\* insert a token (attribute record ta) so that it becomes the i-th token, below the root
InsertTok(T, i, ta) ==
  LET sh(Y) == {IF q >= i THEN q + 1 ELSE q : q \in Y} IN
  [n |-> T.n + 1,
   nodes |-> Norm({[x EXCEPT !.y = sh(x.y) \cup (IF x.d = 0 THEN {i} ELSE {})] : x \in T.nodes}
                  \cup {[y |-> {i}, d |-> 1, tok |-> TRUE, a |-> ta]})]


\* ---- terminal files: rows = ascending sequence of [idx, word, tag] for this sentence;
\*      tag = <<>> means "no POS column" (substitute only)
NewTokAttr(word, tag) == [NoAttr EXCEPT !.word = word, !.lab = tag, !.morph = "--",
                                       !.lemma = "--", !.edge = "--"]
InsertInRange(i, n) ==
  IF "insert_negative_index_accepted" \in Dev THEN ~(i > n + 1 \/ i = 0)
  ELSE i >= 1 /\ i <= n + 1
RECURSIVE InsertTerminals(_, _)
InsertTerminals(T, rows) ==
  IF rows = <<>> THEN T
  ELSE LET r == Head(rows) IN
       InsertTerminals(IF InsertInRange(r.idx, T.n) THEN InsertTok(T, r.idx, NewTokAttr(r.word, r.tag))
                       ELSE T, Tail(rows))
RECURSIVE SubstituteTerminals(_, _)
SubstituteTerminals(T, rows) ==
  IF rows = <<>> THEN T
  ELSE LET r == Head(rows) IN
       SubstituteTerminals(
         IF r.idx \in 1..T.n
         THEN [T EXCEPT !.nodes = {IF x.tok /\ x.y = {r.idx}
                                   THEN [x EXCEPT !.a.word = r.word,
                                                  !.a.lab = IF r.tag = <<>> THEN @ ELSE r.tag]
                                   ELSE x : x \in @}]
         ELSE T, Tail(rows))

\* ---- PTB trace deletion; wc = sequence of <<word atom, characters>> for the trace words
NONE_TAG == <<"-", "N", "O", "N", "E", "-">>
WChars(wc, w) == wc[CHOOSE i \in 1..Len(wc) : wc[i][1] = w][2]
CleanLabel(lab, keepco) ==
  LET p == Parse(lab, DefaultGfSep) IN
  Format([p EXCEPT !.gap = <<>>, !.co = IF keepco THEN @ ELSE <<>>], FALSE, FALSE)
TracePos(T) == {p \in 1..T.n : Tok(T, p).a.lab = NONE_TAG}
TraceLabel(T, p, wc, keepco) == CleanLabel(WChars(wc, Tok(T, p).a.word), keepco)
KeptTraces(T, o, wc) ==
  {p \in TracePos(T) : "keepall" \in o.flags \/
      \E k \in 1..Len(o.keep) : o.keep[k] = TraceLabel(T, p, wc, "keepcoindex" \in o.flags)}
PtbDeleteTraces(T, o, wc) ==
  LET keepco == "keepcoindex" \in o.flags
      K  == KeptTraces(T, o, wc)
      T1 == [T EXCEPT !.nodes =
               {IF x.tok /\ SetMin(x.y) \in K
                THEN [x EXCEPT !.a.lab = TraceLabel(T, SetMin(x.y), wc, keepco), !.a.word = "-NONE-"]
                ELSE x : x \in @}]
      T2 == DeleteToks(T1, TracePos(T) \ K)
  IN [T2 EXCEPT !.nodes = {IF x.tok THEN x ELSE [x EXCEPT !.a.lab = CleanLabel(@, keepco)] : x \in @}]

FilterDrops(T, o) ==
  \/ (o.fop = "lt" /\ T.n < o.fval) \/ (o.fop = "gt" /\ T.n > o.fval) \/ (o.fop = "eq" /\ T.n = o.fval)

-----------------------------------------------------------------------------
(* PROPERTY LEVEL                                                          *)
(* A, B : abstract pre / post trees (B only if the post graph is WF)       *)

LabelBagOf(S) == [l \in {x.a.lab : x \in S} |-> Cardinality({x \in S : x.a.lab = l})]
SameTokens(A, B) == A.n = B.n /\ Sentence(A) = Sentence(B)
SameWords(A, B) == A.n = B.n /\ \A p \in 1..A.n : Tok(A, p).a.word = Tok(B, p).a.word
\* tags up to the '+' concatenation of collapsing / its inverse
TagsUpToPlus(A, B) ==
  A.n = B.n /\ \A p \in 1..A.n :
     LET a == Tok(A, p).a.lab  b == Tok(B, p).a.lab IN
     a = b \/ EndsWith(b, <<"+">> \o a) \/ EndsWith(a, <<"+">> \o b)
\* multiset of '+'-separated label pieces over all nodes (collapse / uncollapse)
PieceBag(T) ==
  LET P == UNION {{<<x.y, x.d, x.tok, i>> : i \in 1..Len(SplitPlus(x.a.lab))} : x \in T.nodes}
      lab(q) == LET x == CHOOSE z \in T.nodes : z.y = q[1] /\ z.d = q[2] /\ z.tok = q[3]
                IN SplitPlus(x.a.lab)[q[4]]
  IN [l \in {lab(q) : q \in P} |-> Cardinality({q \in P : lab(q) = l})]

Continuous(T) == \A x \in T.nodes : Cardinality(Runs(x.y)) = 1

=============================================================================

------------------------------- MODULE Readers -------------------------------
(***************************************************************************)
(* What each tree reader must yield for a well-formed file (property C01): *)
(* for an intended corpus (sequence of abstract trees with sentence ids),  *)
(* a format and a reader option set, the projection of every yielded tree  *)
(* on the fields the format carries.  One operator (GfSplit*, ReplParens)  *)
(* serves all formats, so "the same option has the same effect" is a       *)
(* statement about the code only.                                          *)
(***************************************************************************)
EXTENDS BracketReader

F(name, ok) == IF ok THEN {} ELSE {name}
TreeOfJson(t) ==
  [n |-> t.n,
   nodes |-> {[y |-> {t.nodes[k].y[j] : j \in 1..Len(t.nodes[k].y)}, d |-> t.nodes[k].d,
               tok |-> t.nodes[k].tok, a |-> t.nodes[k].a] : k \in 1..Len(t.nodes)}]
AddVRoot(T) ==
  IF Root(T).a.lab = VRootC THEN T
  ELSE [T EXCEPT !.nodes = Norm(@ \cup {[y |-> 1..T.n, d |-> -1, tok |-> FALSE, a |-> CAttrC(VRootC, Dash2)]})]

\* masks: which fields a reader of the format is judged on
Judged(fmt, x, o) ==
  CASE fmt = "export" -> IF x.d = 0 THEN {"lab"} ELSE (IF x.tok THEN {"word"} ELSE {}) \cup {"lab", "lemma", "morph", "edge"}
    [] fmt = "tigerxml" -> IF x.tok THEN {"word", "lab", "lemma", "morph", "edge"} ELSE {"lab", "edge"}
    \* bracket formats: the edge is judged only where gf_split derives it from a label that is in the file
    [] OTHER -> (IF x.tok THEN {"word"} ELSE {}) \cup {"lab"} \cup (IF "gf_split" \in o /\ x.d > 0 THEN {"edge"} ELSE {})
Masked(fmt, x, o, a) ==
  LET J == Judged(fmt, x, o) IN
  PN(x.y, x.d, x.tok, IF "word" \in J THEN a.word ELSE NA, IF "lab" \in J THEN a.lab ELSE NA,
     IF "lemma" \in J THEN a.lemma ELSE NA, IF "morph" \in J THEN a.morph ELSE NA,
     IF "edge" \in J THEN a.edge ELSE NA)

\* expected attributes of node x of the intended tree after the reader options
ExpAttr(fmt, T, x, o, sep, tab, four) ==
  LET a0 == [x.a EXCEPT !.lemma = IF fmt = "export" /\ ~four THEN Dash2 ELSE @,
                        !.edge = IF fmt \in {"brackets", "discobrackets"} THEN Dash2 ELSE @]
      \* (a label spelled like the default label EMPTY is split like any other: category EMPTY, no function)
      split == "gf_split" \in o /\ (fmt # "export" \/ x.d > 0)
      a1 == IF split THEN [a0 EXCEPT !.lab = GfSplitLabel(a0.lab, sep), !.edge = GfSplitEdge(a0.lab, sep)] ELSE a0
      a2 == IF "replace_parens" \in o
            THEN [a1 EXCEPT !.lab = ReplParens(@, tab), !.word = ReplParens(@, tab), !.lemma = ReplParens(@, tab),
                            !.morph = ReplParens(@, tab), !.edge = ReplParens(@, tab)]
            ELSE a1
  IN a2
ExpRead(fmt, T0, o, sep, tab, four) ==
  LET T == IF fmt = "tigerxml" THEN AddVRoot(T0) ELSE T0 IN
  {Masked(fmt, x, o, ExpAttr(fmt, T, x, o, sep, tab, four)) : x \in T.nodes}
GotRead(fmt, A, o) == {Masked(fmt, x, o, x.a) : x \in A.nodes}

\* ---- bracket items (BracketReader) as node sets, for token-level cases ----
RECURSIVE RItemSize(_)
RItemSize(it) == IF it.kids = <<>> THEN 1 ELSE FoldLeft(LAMBDA acc, k : acc + RItemSize(k), 0, it.kids)
RECURSIVE RItemNodes(_, _, _, _)
RItemNodes(it, first, d, o) ==
  LET e == IF "gf_split" \in o /\ d > 0 THEN it.edge ELSE NA IN
  IF it.kids = <<>> THEN {PN({first}, d, TRUE, it.word, it.lab, NA, NA, e)}
  ELSE LET offs == [k \in 1..Len(it.kids) |->
                      first + FoldLeft(LAMBDA acc, j : acc + RItemSize(it.kids[j]), 0, [j \in 1..(k - 1) |-> j])]
       IN {PN(first..(first + RItemSize(it) - 1), d, FALSE, NA, it.lab, NA, NA, e)}
          \cup UNION {RItemNodes(it.kids[k], offs[k], d + 1, o) : k \in 1..Len(it.kids)}
=============================================================================

------------------------------ MODULE MC_Labels ------------------------------
(* Bounded model for C20: every string over Alphabet up to length L (started *)
(* from the empty string or from the default literals) is built character by *)
(* character, then parsed by the stripping machine one step per action.      *)
EXTENDS Labels, Json
CONSTANTS Alphabet, L, L2, Seeds, Seps
VARIABLES inp, phase, st, sep
vars == <<inp, phase, st, sep>>

Blank == Start(<<>>, DefaultGfSep)
Init == /\ inp \in Seeds /\ phase = "build" /\ st = Blank /\ sep = DefaultGfSep
AddChar(c) == /\ phase = "build"
             /\ \/ Len(inp) < L
                \/ (Len(inp) >= 5 /\ SubSeq(inp, 1, 5) = DefaultLabel /\ Len(inp) < 5 + L2)
             /\ inp' = Append(inp, c) /\ UNCHANGED <<phase, st, sep>>
Begin(sp) == /\ phase = "build" /\ phase' = "head" /\ sep' = sp
             /\ st' = Start(inp, EffSep(sp)) /\ UNCHANGED inp
Step(from, to, f(_)) == /\ phase = from /\ phase' = to /\ st' = f(st) /\ UNCHANGED <<inp, sep>>
Next == \/ \E c \in Alphabet : AddChar(c)
        \/ \E sp \in Seps : Begin(sp)
        \/ Step("head", "co", StripHead)
        \/ Step("co", "gap", StripCoindex)
        \/ Step("gap", "gf", StripGap)
        \/ Step("gf", "done", SplitGf)

P == Finish(st)
OutOf(p) == [aL \in BOOLEAN |-> [aG \in BOOLEAN |-> Format(p, aL, aG)]]

\* the machine composed step by step equals Parse; every C20 clause holds of it
InvDone == phase = "done" =>
  /\ P = Parse(inp, sep)
  /\ C20roundtrip(inp, P, OutOf(P))
  /\ C20partsHead(inp, P) /\ C20partsIndex(inp, P) /\ C20trace(P)
  /\ \A c \in {Comps[i] : i \in 1..Len(Comps)} : C20delete(P, c, Without(P, c))
  /\ C20separator(inp, sep, P)
InvShape == /\ Len(st.co) > 0 => AllDigits(st.co)
            /\ Len(st.gap) > 0 => AllDigits(st.gap)
            /\ Len(st.hm) <= 1
SeedsDef == {<<>>, <<"E", "M", "P", "T", "Y">>}
Emit == phase = "build" => PrintT("CASE " \o ToJson([s |-> inp]))
=============================================================================

--------------------------- MODULE MC_GapAutomaton ---------------------------
(* The automata alone: every transition sequence (not only oracle output).  *)
(* Invariant: whenever a run is complete (buffer consumed, single item) the *)
(* item is a well-formed tree over the whole sentence.                      *)
EXTENDS Transitions, TreeGen
CONSTANTS N, Sys, MaxSteps
VARIABLES c, k
T0 == Flat(N, ConsAttr("VROOT", "--"), [p \in 1..N |-> TokAttr("w", "T", "--")])
AllTr == {Tr("SHIFT", "~", "~"), Tr("GAP", "~", "~"), Tr("REDUCE", "~", "~"), Tr("PJ", "~", "X"),
          Tr("UNARY", "~", "X"), Tr("R", "LEFT", "X"), Tr("R", "RIGHT", "X"),
          Tr("BINARY", "LEFT", "X"), Tr("BINARY", "RIGHT", "X")}
Init == c = Cfg0(T0) /\ k = 0
Next == /\ k < MaxSteps
        /\ \E tr \in AllTr : LET c2 == Step(Sys, c, tr, T0, "preserve") IN
              ~c2.err /\ c' = c2 /\ k' = k + 1
Complete == ConsumesAll(c) /\ SingleItem(Sys, c)
ItemTree(it) == [n |-> N, nodes |-> {[y |-> n.y, d |-> n.d, tok |-> n.tok, a |-> NoAttr] : n \in it.ns}]
InvBuildsTree == Complete =>
   LET T == ItemTree(Result(Sys, c)[1]) IN
   /\ Laminar(T) /\ \A x \in T.nodes : x.y # {}
   /\ {x.y : x \in TNodes(T)} = {{p} : p \in 1..N}
   /\ Cardinality({x \in T.nodes : x.d = 0}) = 1
   /\ \A x \in T.nodes : x.d = Cardinality(Ancs(T, x))
=============================================================================

----------------------------- MODULE MC_Process -----------------------------
(* Bounded model for C18: every history of up to MaxCalls calls; every      *)
(* history is emitted as a CASE and replayed in ONE process of the real     *)
(* code, each call additionally in a fresh process.                         *)
EXTENDS Process, Json
Init == PInit
Next == PNext
Emit == Len(hist) > 0 => PrintT("CASE " \o ToJson([hist |-> hist, files |-> files]))
=============================================================================

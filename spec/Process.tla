------------------------------- MODULE Process -------------------------------
(***************************************************************************)
(* The process-global state of treetools and its effect on results         *)
(* (property C18).  Globals the code keeps across calls:                   *)
(*   newid  : Tree.newid, the counter behind Tree.id (never observable in  *)
(*            a result: trees are compared by id only inside one tree)     *)
(*   cache  : per terminal-file transformation the pair (file name,        *)
(*            parsed content) stored on the function object                *)
(* A call is [op, file, sent]; terminal files are named and have content   *)
(* (rows).  Res(call, state) is the result the call produces in a state.   *)
(* Property: Res(call, s) = Res(call, fresh state) for every reachable s - *)
(* under the stated discipline that a file name never changes its content  *)
(* (deviation file_rewritten_under_same_name lifts the discipline and      *)
(* exposes the stale cache).                                               *)
(***************************************************************************)
EXTENDS Integers, Sequences, FiniteSets, TLC
CONSTANTS Dev, FileNames, Contents, Calls, MaxCalls
VARIABLES newid, cache, files, hist, last
pvars == <<newid, cache, files, hist, last>>

TermOps == {"insert_terminals", "substitute_terminals"}
NoCache == [fn |-> "~", rows |-> "~"]
Fresh(fs) == [newid |-> 0, cache |-> [o \in TermOps |-> NoCache], files |-> fs]
\* which rows a terminal-file call works with: the cached ones iff the name matches
RowsUsed(c, st) == IF st.cache[c.op].fn = c.file THEN st.cache[c.op].rows ELSE st.files[c.file]
Res(c, st) ==
  IF c.op \in TermOps THEN [op |-> c.op, sent |-> c.sent, rows |-> RowsUsed(c, st)]
  ELSE [op |-> c.op, sent |-> c.sent, rows |-> "~"]        \* every other call is a function of its arguments
Step(c, st) ==
  [st EXCEPT !.newid = @ + 1 + (IF c.op \in {"boyd_split", "binarize", "add_topnode", "read"} THEN 3 ELSE 0),
             !.cache = IF c.op \in TermOps THEN [@ EXCEPT ![c.op] = [fn |-> c.file, rows |-> RowsUsed(c, st)]] ELSE @]
St == [newid |-> newid, cache |-> cache, files |-> files]

PInit == /\ newid = 0 /\ cache = [o \in TermOps |-> NoCache]
         /\ files \in [FileNames -> Contents] /\ hist = <<>> /\ last = "~"
Call(c) == /\ Len(hist) < MaxCalls
           /\ last' = Res(c, St)
           /\ newid' = Step(c, St).newid /\ cache' = Step(c, St).cache
           /\ hist' = Append(hist, c) /\ UNCHANGED files
Rewrite(f, k) == /\ "file_rewritten_under_same_name" \in Dev /\ files[f] # k
                 /\ files' = [files EXCEPT ![f] = k] /\ UNCHANGED <<newid, cache, hist, last>>
PNext == (\E c \in Calls : Call(c)) \/ (\E f \in FileNames : \E k \in Contents : Rewrite(f, k))

\* C18.history_independent on the model
InvHistoryIndependent == \A c \in Calls : Res(c, St) = Res(c, Fresh(files))
InvCacheCoherent == \A o \in TermOps : cache[o].fn # "~" => cache[o].rows = files[cache[o].fn]
=============================================================================

------------------------------- MODULE MC_Nav -------------------------------
(* Bounded model for C19/C16: every tree over <= N tokens is a reachable     *)
(* state; ModelOK is checked on each; each state is emitted as a CASE.      *)
EXTENDS TreeGen, Nav, Json
CONSTANTS N, MaxCons, MaxChain
VARIABLE tree

Init == \E n \in 1..N :
          tree = Flat(n, ConsAttr("VROOT", "--"),
                      [p \in 1..n |-> TokAttr("w" \o ToString(p), "T", "--")])
Add(Y) == /\ CanAdd(tree, Y, MaxCons, MaxChain)
          /\ tree' = AddCons(tree, Y, ConsAttr("X", "--"))
Next == \E Y \in Cands(tree.n) : Add(Y)

InvModelOK == ModelOK(tree)
Emit == PrintT("CASE " \o ToJson([tree |-> tree, gap |-> GapDeg(tree)]))
=============================================================================

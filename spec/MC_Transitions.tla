--------------------------- MODULE MC_Transitions ---------------------------
(***************************************************************************)
(* Bounded model for C10: every head-marked tree within the bounds whose   *)
(* nodes have at most MaxKids children is built (TreeGen), head sides are  *)
(* chosen freely; on each sealed tree the static oracle of every           *)
(* applicable system, executed by that system's automaton, must rebuild    *)
(* the tree.  Each sealed tree is emitted as a CASE.                       *)
(***************************************************************************)
EXTENDS Transitions, TreeGen, Json
CONSTANTS N, MaxCons, MaxChain, MaxKids
VARIABLES tree, phase
vars == <<tree, phase>>

LabOf(T, Y) == "L" \o ToString(SetMin(Y)) \o ToString(Cardinality(Y)) \o ToString(ChainLen(T, Y))
Init == /\ phase = "build"
        /\ \E n \in 1..N :
             tree = Flat(n, ConsAttr("VROOT", "--"),
                         [p \in 1..n |-> TokAttr("w" \o ToString(p), "T" \o ToString(p), "--")])
Build == /\ phase = "build"
         /\ \E Y \in Cands(tree.n) :
               /\ CanAdd(tree, Y, MaxCons, MaxChain)
               /\ tree' = AddCons(tree, Y, ConsAttr(LabOf(tree, Y), "--"))
         /\ UNCHANGED phase
ArityOK(T) == \A x \in CNodes(T) : Cardinality(Kids(T, x)) <= MaxKids
\* choose one head child per constituent
Seal == /\ phase = "build" /\ ArityOK(tree)
        /\ \E h \in [CNodes(tree) -> 1..MaxKids] :
              /\ \A x \in CNodes(tree) : h[x] <= Cardinality(Kids(tree, x))
              /\ tree' = [tree EXCEPT !.nodes =
                   {IF ~HasParent(tree, x) THEN [x EXCEPT !.a.head = "F"]
                    ELSE LET p == Parent(tree, x) IN
                         [x EXCEPT !.a.head = IF KidsSeq(tree, p)[h[p]] = x THEN "T" ELSE "F"] : x \in @}]
        /\ phase' = "sealed"
Next == Build \/ Seal

Systems(T) == (IF Binarized(T) THEN {"gap"} ELSE {}) \cup
              (IF GapDeg(T) = 0 THEN {"inorder"} ELSE {}) \cup
              (IF Binarized(T) /\ GapDeg(T) = 0 THEN {"topdown"} ELSE {})
InvOracles == phase = "sealed" =>
   \A sys \in Systems(tree) : C10Clauses(sys, tree, Oracle(sys, tree), "preserve") = {}
Emit == phase = "sealed" => PrintT("CASE " \o ToJson([tree |-> tree, systems |-> Systems(tree)]))
=============================================================================

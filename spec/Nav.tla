-------------------------------- MODULE Nav --------------------------------
(***************************************************************************)
(* Tree navigation API (trees.py) and gap-degree analysis (treeanalysis.py)*)
(* against the set-based model: properties C19 and C16.                    *)
(*                                                                         *)
(* Every clause is an operator over an abstract tree T and an ANSWER given *)
(* in abstract-node terms.  The bounded model checks the clauses on the    *)
(* reference answers (Ref...), the trace specification checks them on the    *)
(* answers the implementation returned.                                    *)
(***************************************************************************)
EXTENDS TreeModel

NONE == [y |-> {}, d |-> -1, tok |-> FALSE, a |-> NoAttr]   \* "no node" (None)

NoDup(s) == \A i, j \in 1..Len(s) : i # j => s[i] # s[j]

(* ---- reference answers ------------------------------------------------ *)
RefChildren(T, x)  == KidsSeq(T, x)
RefTerminals(T, x) == TokSeq(T, x)
RefPre(T, x)       == Pre(T, x)
RefPost(T, x)      == Post(T, x)
RefRight(T, x) == IF ~HasParent(T, x) THEN NONE
                  ELSE LET s == KidsSeq(T, Parent(T, x))
                           i == CHOOSE k \in 1..Len(s) : s[k] = x
                       IN IF i < Len(s) THEN s[i + 1] ELSE NONE
RefLeft(T, x)  == IF ~HasParent(T, x) THEN NONE
                  ELSE LET s == KidsSeq(T, Parent(T, x))
                           i == CHOOSE k \in 1..Len(s) : s[k] = x
                       IN IF i > 1 THEN s[i - 1] ELSE NONE
RefDominance(T, x) == <<x>> \o SetToSortSeq(Ancs(T, x), LAMBDA u, v : u.d > v.d)
Related(a, b) == a = b \/ Dom(a, b) \/ Dom(b, a)
RefLca(T, a, b) == IF Related(a, b) THEN NONE ELSE Lowest(CommonAncs(T, a, b))
RefLevel(T, x) == Level(T, x)
\* level-based numbering (reference): levels ascending, left to right inside
LevelOrder(T) == SetToSortSeq(CNodes(T) \ {Root(T)},
                   LAMBDA u, v : \/ Level(T, u) < Level(T, v)
                                 \/ (Level(T, u) = Level(T, v) /\ LeftTok(u) < LeftTok(v)))
RefNumbering(T) == LET s == LevelOrder(T) IN
                   [x \in CNodes(T) |-> IF x = Root(T) THEN 0
                                      ELSE 499 + (CHOOSE k \in 1..Len(s) : s[k] = x)]

(* ---- C19 clauses ------------------------------------------------------ *)
C19children(T, x, ans)  == ans = KidsSeq(T, x)
C19terminals(T, x, ans) == ans = TokSeq(T, x)
\* the helpers the ordered functions are built on: the same tokens in any order, each once; "has a child"
C19termset(T, x, ans) == /\ {ans[k] : k \in 1..Len(ans)} = {TokSeq(T, x)[k] : k \in 1..Len(TokSeq(T, x))}
                         /\ Len(ans) = Len(TokSeq(T, x))
C19haskids(T, x, ans) == (ans = "T") <=> ~x.tok
C19pre(T, x, ans) ==
  /\ NoDup(ans) /\ SeqToSet(ans) = {x} \cup Below(T, x)
  /\ \A i, j \in 1..Len(ans) : i < j => ~Dom(ans[j], ans[i])
C19post(T, x, ans) ==
  /\ NoDup(ans) /\ SeqToSet(ans) = {x} \cup Below(T, x)
  /\ \A i, j \in 1..Len(ans) : i < j => ~Dom(ans[i], ans[j])
C19right(T, x, ans) == ans = RefRight(T, x)
C19left(T, x, ans)  == ans = RefLeft(T, x)
\* mutually inverse (stated on a whole answer table r, l : node -> node)
C19inverse(T, r, l) == \A x \in T.nodes :
   /\ (r[x] # NONE => l[r[x]] = x)
   /\ (l[x] # NONE => r[l[x]] = x)
C19dominance(T, x, ans) ==
  /\ Len(ans) = Cardinality(Ancs(T, x)) + 1 /\ ans[1] = x
  /\ \A i \in 2..Len(ans) : ans[i] = Parent(T, ans[i - 1])
  /\ ans[Len(ans)] = Root(T)
\* a = b is not judged (the statement speaks of two nodes)
C19lca(T, a, b, ans) ==
  IF a = b THEN TRUE
  ELSE IF Dom(a, b) \/ Dom(b, a) THEN ans = NONE
  ELSE /\ ans # NONE /\ (Dom(ans, a) /\ Dom(ans, b))
       /\ \A z \in T.nodes : (Dom(z, a) /\ Dom(z, b)) => z.d <= ans.d
C19level(T, x, ans) == ans = Level(T, x)
\* num : CNodes(T) -> Nat
C19numbering(T, num) ==
  LET C == CNodes(T)  k == Cardinality(C) - 1 IN
  /\ num[Root(T)] = 0
  /\ {num[x] : x \in C} = {0} \cup (500..(499 + k))
  /\ \A x, z \in C : x # z => num[x] # num[z]
  /\ \A x, z \in C \ {Root(T)} : Dom(x, z) => num[x] > num[z]
  /\ \A x, z \in C \ {Root(T)} :
        (Level(T, x) = Level(T, z) /\ LeftTok(x) < LeftTok(z)) => num[x] < num[z]

(* ---- C16 clauses ------------------------------------------------------ *)
C16node(x, ans)   == ans = Cardinality(Runs(x.y)) - 1
\* blocks as a sequence of sets of positions
C16blocks(x, ans) ==
  /\ ans = RunsSeq(x.y)
  /\ UNION SeqToSet(ans) = x.y
  /\ \A i, j \in 1..Len(ans) : i # j => ans[i] \cap ans[j] = {}
C16tree(T, ans) == ans = SetMax({GapDegNode(x) : x \in T.nodes})


(* ---- C16: the three notions of discontinuity, the continuous reordering, the reports ---- *)
C16threeNotions(T, gd, refuses, cf) ==
  LET disc == GapDeg(T) > 0 IN (gd > 0) = disc /\ refuses = disc /\ cf = ~disc
\* gap type of a node (Maier & Lichte 2016): "pass" = the node itself has a gap, "source" = it is
\* continuous but a child constituent has one
GapType(T, x) == IF x.tok THEN "none"
                 ELSE IF Cardinality(Runs(x.y)) > 1 THEN "pass"
                 ELSE IF \E k \in Kids(T, x) : ~k.tok /\ Cardinality(Runs(k.y)) > 1 THEN "source" ELSE "none"
RECURSIVE DiscoOrder(_, _, _)
DiscoOrder(T, x, mode) ==
  LET ks == KidsSeq(T, x) IN
  IF x.tok THEN <<x>>
  ELSE IF Len(ks) = 1 THEN DiscoOrder(T, ks[1], mode)
  ELSE IF mode = "rightd" /\ GapType(T, x) = "source"
       THEN DiscoOrder(T, ks[2], mode) \o DiscoOrder(T, ks[1], mode)
       ELSE DiscoOrder(T, ks[1], mode) \o DiscoOrder(T, ks[2], mode)
BinarizedT(T) == \A x \in CNodes(T) : Cardinality(Kids(T, x)) <= 2
C16discoOrder(T, ans) ==     \* ans: sequence of token nodes
  /\ Len(ans) = T.n /\ SeqToSet(ans) = TNodes(T)
  /\ (GapDeg(T) = 0 => ans = TokSeq(T, Root(T)))
\* reports over a treebank TB (sequence of trees): numbers as printed
C16reportGap(TB, trees, nodes, perTree, perNode) ==    \* perTree / perNode: sequences of <<degree, count>>
  LET cnt(s, k) == FoldLeft(LAMBDA acc, i : acc + (IF s[i][1] = k THEN s[i][2] ELSE 0), 0, [i \in 1..Len(s) |-> i])
      tot(s) == FoldLeft(LAMBDA acc, i : acc + s[i][2], 0, [i \in 1..Len(s) |-> i])
      NC == FoldLeft(LAMBDA acc, i : acc + Cardinality(CNodes(TB[i])), 0, [i \in 1..Len(TB) |-> i])
      degs == 0..8
  IN /\ trees = Len(TB) /\ nodes = NC
     /\ tot(perTree) = trees /\ tot(perNode) = nodes
     /\ \A k \in degs : cnt(perTree, k) = Cardinality({i \in 1..Len(TB) : GapDeg(TB[i]) = k})
     /\ \A k \in degs : cnt(perNode, k) =
          FoldLeft(LAMBDA acc, i : acc + Cardinality({x \in CNodes(TB[i]) : GapDegNode(x) = k}), 0, [i \in 1..Len(TB) |-> i])
C16reportTags(TB, ntags) == ntags = Cardinality(UNION {{x.a.lab : x \in TNodes(TB[i])} : i \in 1..Len(TB)})
C16reportCount(TB, n) == n = Len(TB)

(* ---- the model satisfies its own clauses (checked by TLC on MC_Nav) ---- *)
ModelOK(T) ==
  /\ TreeOK(T)
  /\ \A x \in T.nodes :
       /\ C19children(T, x, RefChildren(T, x))
       /\ C19pre(T, x, RefPre(T, x)) /\ C19post(T, x, RefPost(T, x))
       /\ C19dominance(T, x, RefDominance(T, x))
       /\ C16blocks(x, RunsSeq(x.y))
  /\ C19inverse(T, [x \in T.nodes |-> RefRight(T, x)], [x \in T.nodes |-> RefLeft(T, x)])
  /\ \A a, b \in T.nodes : C19lca(T, a, b, RefLca(T, a, b))
  /\ C19numbering(T, RefNumbering(T))
  /\ (BinarizedT(T) => C16discoOrder(T, DiscoOrder(T, Root(T), "left")) /\ C16discoOrder(T, DiscoOrder(T, Root(T), "rightd")))
=============================================================================

----------------------------- MODULE Trace_Split -----------------------------
(* Trace validation for C17: recorded results of parse_split_specification   *)
(* and of `treetools transform --split` runs against the clauses of Split.   *)
EXTENDS Split, Json, IOUtils
Doc   == JsonDeserialize(IOEnv.TRACE_FILE)
Cases == Doc.cases
VARIABLES tid, done
Case == Cases[tid]
TInit == tid \in 1..Len(Cases) /\ done = FALSE
Errs(c) == C17arith(c.spec, c.size, c.res, c.parts)
TDone == /\ ~done /\ done' = TRUE
         /\ PrintT("VERDICT " \o ToJson(
              [id |-> Case.id, steps |-> 1, failed |-> {<<e, 1>> : e \in Errs(Case)},
               tags |-> (IF \E k \in 1..Len(Case.spec) : Case.spec[k].k = "pct" THEN {"percent"} ELSE {}) \cup
                        (IF \E k \in 1..Len(Case.spec) : Case.spec[k].n < 0 THEN {"negative"} ELSE {}),
               nontrivial |-> (Len(Case.spec) > 1 /\ ~MustReject(Case.spec, Case.size))]))
         /\ UNCHANGED tid
TNext == TDone
=============================================================================

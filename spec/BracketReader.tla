---------------------------- MODULE BracketReader ----------------------------
(***************************************************************************)
(* treeinput.bracket_lexer and the 7-state reader automaton of             *)
(* treeinput.brackets, one action per character class / lexer token, and,  *)
(* independently, the declarative grammar of a well-formed bracket group   *)
(* with its denotation (property C01).                                     *)
(*                                                                         *)
(* lexer token = [c |-> "LRB" | "RRB" | "WS" | "TOKEN", x |-> characters]  *)
(* item (a finished or open node) = [lab, word, kids]; kids = <<>> and     *)
(* word # NoneC for a terminal.                                            *)
(***************************************************************************)
EXTENDS Formats

WSChars == {" ", "U0020", "U000A", "U0009", "U000D", "U000B", "U000C"}
ClassOf(ch) == IF ch \in {"(", ")"} THEN "P" ELSE IF ch \in WSChars THEN "W" ELSE "O"

(* ---- lexer: state [tok, ws, out] over a character sequence ---- *)
Lex0 == [tok |-> <<>>, ws |-> <<>>, out |-> <<>>]
FlushTok(st) == IF st.tok = <<>> THEN st ELSE [st EXCEPT !.out = Append(@, [c |-> "TOKEN", x |-> st.tok]), !.tok = <<>>]
FlushWs(st)  == IF st.ws = <<>> THEN st ELSE [st EXCEPT !.out = Append(@, [c |-> "WS", x |-> st.ws]), !.ws = <<>>]
LexChar(st, ch) ==
  CASE ClassOf(ch) = "P" -> [FlushWs(FlushTok(st)) EXCEPT
                               !.out = Append(@, [c |-> IF ch = "(" THEN "LRB" ELSE "RRB", x |-> <<ch>>])]
    [] ClassOf(ch) = "W" -> [FlushTok(st) EXCEPT !.ws = Append(@, ch)]
    [] OTHER -> [FlushWs(st) EXCEPT !.tok = Append(@, ch)]
\* at end of input the documented lexer delivers what is still buffered; the deviation
\* lexer_no_flush_at_eof drops it (code before the fix)
LexEof(st) == IF "lexer_no_flush_at_eof" \in Dev THEN st ELSE FlushWs(FlushTok(st))
Lex(chars) == LexEof(FoldLeft(LexChar, Lex0, chars)).out

(* ---- reader automaton over lexer tokens ---- *)
\* configuration: state, queue (open nodes, last = innermost), termCnt, cnt (next sid),
\* out (finished sentences [sid, item]), err
NewNode == [lab |-> NoneC, word |-> NoneC, edge |-> NoneC, kids |-> <<>>, num |-> 0]
Rd0(firstid) == [state |-> 0, queue |-> <<>>, termCnt |-> 1, cnt |-> firstid, out |-> <<>>, err |-> FALSE]
Fail(c) == [c EXCEPT !.err = TRUE]
Top(c) == c.queue[Len(c.queue)]
SetTop(c, nd) == [c EXCEPT !.queue[Len(c.queue)] = nd]
\* gf_split: the label without its function, the function as edge (one operator for all readers)
\* (the category stays even when it is spelled like the default label: "EMPTY-HD" gives "EMPTY", edge "HD")
GfSplitLabel(lab, sep) == Format([Parse(lab, sep) EXCEPT !.gf = DefaultEdge], TRUE, FALSE)
GfSplitEdge(lab, sep)  == Parse(lab, sep).gf

RdStep(c, t, o, sep) ==      \* o = set of reader options
  IF c.err THEN c
  ELSE IF t.c = "LRB" THEN
     IF c.state \in {0, 2, 3, 5}
     THEN [c EXCEPT !.queue = Append(@, NewNode), !.state = IF c.state = 0 THEN 9 ELSE 1]
     ELSE IF c.state = 9
     THEN [SetTop(c, [Top(c) EXCEPT !.lab = VRootC]) EXCEPT !.queue = Append(@, NewNode), !.state = 1]
     ELSE Fail(c)
  ELSE IF t.c = "RRB" THEN
     IF c.state = 0 THEN c
     ELSE IF c.state \in {2, 4, 5} THEN
       IF c.state = 2 /\ "brackets_emptypos" \notin o THEN Fail(c)
       ELSE LET c1 == IF c.state = 2
                      THEN [SetTop(c, [Top(c) EXCEPT !.word = Top(c).lab, !.lab = DefaultLabel, !.edge = Dash2,
                                                     !.num = c.termCnt]) EXCEPT !.termCnt = @ + 1]
                      ELSE c
                n == Len(c1.queue)
                c2 == IF n > 1
                      THEN [c1 EXCEPT !.queue = Append(SubSeq(@, 1, n - 2),
                                                       [c1.queue[n - 1] EXCEPT !.kids = Append(@, c1.queue[n])])]
                      ELSE c1
            IN IF n = 1      \* level 0: close the sentence
               THEN [c2 EXCEPT !.out = Append(@, [sid |-> c2.cnt, item |-> c2.queue[1]]), !.cnt = @ + 1,
                               !.termCnt = 1, !.queue = <<>>, !.state = 0]
               ELSE [c2 EXCEPT !.state = 5]
     ELSE Fail(c)
  ELSE IF t.c = "WS" THEN (IF c.state = 2 THEN [c EXCEPT !.state = 3] ELSE c)
  ELSE \* TOKEN
     IF c.state = 0 THEN c
     ELSE IF c.state \in {1, 9}
     THEN [SetTop(c, [Top(c) EXCEPT !.lab = IF "gf_split" \in o THEN GfSplitLabel(t.x, sep) ELSE t.x,
                                     !.edge = IF "gf_split" \in o THEN GfSplitEdge(t.x, sep) ELSE Dash2])
             EXCEPT !.state = 2]
     ELSE IF c.state = 3
     THEN [SetTop(c, [Top(c) EXCEPT !.word = t.x, !.num = c.termCnt]) EXCEPT !.termCnt = @ + 1, !.state = 4]
     ELSE Fail(c)
\* end of input: a group still open is ill-formed (truncated); deviation truncated_group_silent
RdEof(c) == IF ~c.err /\ c.queue # <<>> /\ "truncated_group_silent" \notin Dev THEN Fail(c) ELSE c
RdRun(ts, o, sep, firstid) == RdEof(FoldLeft(LAMBDA c, t : RdStep(c, t, o, sep), Rd0(firstid), ts))

(* ---- declarative grammar over the same token stream ----                *)
(* Group ::= LRB Label? Group+ RRB  (Label may be missing only at top)     *)
(*         | LRB Tag WS Word RRB | LRB Word RRB (only with emptypos)       *)
\* next index that is not whitespace
RECURSIVE SkipWs(_, _)
SkipWs(ts, i) == IF i <= Len(ts) /\ ts[i].c = "WS" THEN SkipWs(ts, i + 1) ELSE i
Is(ts, i, c) == i <= Len(ts) /\ ts[i].c = c
GBad(i) == [ok |-> FALSE, next |-> i, item |-> NewNode]
RECURSIVE GrGroup(_, _, _, _, _, _)
RECURSIVE GrKids(_, _, _, _, _)
GrKids(ts, i, fuel, o, sep) ==       \* Group+ , i at an LRB; returns items and index after the last group
  LET g == GrGroup(ts, i, fuel - 1, FALSE, o, sep) IN
  IF fuel = 0 \/ ~g.ok THEN [ok |-> FALSE, next |-> g.next, items |-> <<>>]
  ELSE LET j == SkipWs(ts, g.next) IN
       IF Is(ts, j, "LRB")
       THEN LET r == GrKids(ts, j, fuel - 1, o, sep) IN [ok |-> r.ok, next |-> r.next, items |-> <<g.item>> \o r.items]
       ELSE [ok |-> TRUE, next |-> j, items |-> <<g.item>>]
GrGroup(ts, i, fuel, top, o, sep) ==
  LET j == SkipWs(ts, i + 1)
      lab(x) == IF "gf_split" \in o THEN GfSplitLabel(x, sep) ELSE x
      edg(x) == IF "gf_split" \in o THEN GfSplitEdge(x, sep) ELSE Dash2
  IN
  IF fuel = 0 \/ ~Is(ts, i, "LRB") THEN GBad(i)
  ELSE IF Is(ts, j, "LRB") THEN                      \* empty label
     IF ~top THEN GBad(j)
     ELSE LET r == GrKids(ts, j, fuel - 1, o, sep) IN
          IF r.ok /\ Is(ts, r.next, "RRB")
          THEN [ok |-> TRUE, next |-> r.next + 1,
                item |-> [NewNode EXCEPT !.lab = VRootC, !.kids = r.items]]
          ELSE GBad(r.next)
  ELSE IF Is(ts, j, "TOKEN") THEN
     LET k == j + 1  k2 == SkipWs(ts, k) IN
     IF Is(ts, k, "RRB") THEN                         \* ( Word )   -- no whitespace before ")"
        IF "brackets_emptypos" \in o
        THEN [ok |-> TRUE, next |-> k + 1,
              item |-> [NewNode EXCEPT !.lab = DefaultLabel, !.word = ts[j].x, !.edge = Dash2]]
        ELSE GBad(k)
     ELSE IF Is(ts, k2, "LRB") THEN                   \* ( Label Group+ )
        LET r == GrKids(ts, k2, fuel - 1, o, sep) IN
        IF r.ok /\ Is(ts, r.next, "RRB")
        THEN [ok |-> TRUE, next |-> r.next + 1,
              item |-> [NewNode EXCEPT !.lab = lab(ts[j].x), !.edge = edg(ts[j].x), !.kids = r.items]]
        ELSE GBad(r.next)
     ELSE IF Is(ts, k, "WS") /\ Is(ts, k2, "TOKEN") /\ Is(ts, SkipWs(ts, k2 + 1), "RRB")  \* ( Tag Word )
        THEN [ok |-> TRUE, next |-> SkipWs(ts, k2 + 1) + 1,
              item |-> [NewNode EXCEPT !.lab = lab(ts[j].x), !.edge = edg(ts[j].x), !.word = ts[k2].x]]
        ELSE GBad(k2)
  ELSE GBad(j)
\* a whole file: material between groups is skipped; an ill-formed (or truncated) group is an error
RECURSIVE GFile(_, _, _, _, _, _)
GFile(ts, i, out, o, sep, fuel) ==
  IF fuel = 0 \/ i > Len(ts) THEN [out |-> out, err |-> FALSE]
  ELSE IF ~Is(ts, i, "LRB") THEN GFile(ts, i + 1, out, o, sep, fuel - 1)
  ELSE LET g == GrGroup(ts, i, 4 * Len(ts) + 4, TRUE, o, sep) IN
       IF g.ok THEN GFile(ts, g.next, Append(out, g.item), o, sep, fuel - 1)
       ELSE [out |-> out, err |-> TRUE]
Decl(ts, o, sep) == GFile(ts, 1, <<>>, o, sep, Len(ts) + 2)

\* structure of an item without the terminal numbers (the grammar does not number)
RECURSIVE Bare(_)
Bare(it) == [lab |-> it.lab, word |-> it.word, edge |-> it.edge,
             kids |-> [k \in 1..Len(it.kids) |-> Bare(it.kids[k])]]
=============================================================================

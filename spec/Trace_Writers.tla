---------------------------- MODULE Trace_Writers ----------------------------
(* Trace validation for C02: every recorded call of a writer on a freshly     *)
(* built tree is one step; the written text, split into lexical records, is   *)
(* judged by the clauses of Writers.                                          *)
EXTENDS Writers, Json, IOUtils
Doc   == JsonDeserialize(IOEnv.TRACE_FILE)
Cases == Doc.cases
BrTab == Doc.config.brtab
VARIABLES tid, l, errs, done
Case == Cases[tid]
T == Abs(Case.tree)
TInit == /\ tid \in 1..Len(Cases) /\ l = 0 /\ done = FALSE
         /\ errs = {<<"C02.input." \o c, 0>> : c \in WFClauses(Cases[tid].tree)}
TWrite == /\ ~done /\ l < Len(Case.events) /\ WF(Case.tree)
          /\ l' = l + 1
          /\ errs' = errs \cup {<<c, l + 1>> : c \in WriteClauses(T, Case.sid, Case.events[l + 1], BrTab)}
          /\ UNCHANGED <<tid, done>>
TDone == /\ ~done /\ (l = Len(Case.events) \/ ~WF(Case.tree)) /\ done' = TRUE
         /\ PrintT("VERDICT " \o ToJson(
              [id |-> Case.id, steps |-> l, failed |-> errs,
               tags |-> (IF WF(Case.tree) /\ GapDeg(T) > 0 THEN {"discontinuous"} ELSE {}) \cup
                        (IF WF(Case.tree) /\ HasNone(T, {"lemma"}) THEN {"lemma_none"} ELSE {}) \cup
                        (IF WF(Case.tree) /\ HasNone(T, {"morph"}) THEN {"morph_none"} ELSE {}) \cup
                        (IF WF(Case.tree) /\ HasNone(T, {"edge"}) THEN {"edge_none"} ELSE {}),
               nontrivial |-> (WF(Case.tree) /\ Cardinality(CNodes(T)) > 1)]))
         /\ UNCHANGED <<tid, l, errs>>
TNext == TWrite \/ TDone
=============================================================================

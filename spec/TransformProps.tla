--------------------------- MODULE TransformProps ---------------------------
(***************************************************************************)
(* Property-level clauses of the transformation family, as one operator    *)
(*     Clauses(op, A, B, mem)  ==  set of names of FAILED clauses          *)
(* over abstract pre/post trees.  op = [name, relc, bare, rules];          *)
(* mem remembers trees of earlier steps of the same case (before           *)
(* boyd_split, before collapse).  The bounded model evaluates it on the    *)
(* reference operators, the trace specification on recorded steps.         *)
(***************************************************************************)
EXTENDS Transform

F(name, ok) == IF ok THEN {} ELSE {name}

CountLab(S, l) == Cardinality({x \in S : x.a.lab = l})
SameLabelBag(S1, S2) ==
  \A l \in {x.a.lab : x \in S1 \cup S2} : CountLab(S1, l) = CountLab(S2, l)
BagCount(bag, l) == IF l \in DOMAIN bag THEN bag[l] ELSE 0
SameBag(b1, b2) == \A l \in DOMAIN b1 \cup DOMAIN b2 : BagCount(b1, l) = BagCount(b2, l)

Structural == {"root_attach", "negra_mark_heads", "mark_heads_by_rules", "boyd_split", "raising",
               "add_topnode", "punctuation_verylow", "punctuation_symetrify", "punctuation_root",
               "binarize", "collapse_unary_chains", "uncollapse_unary_chains"}
KeepBag == {"root_attach", "negra_mark_heads", "mark_heads_by_rules",
            "punctuation_verylow", "punctuation_symetrify", "punctuation_root"}

Moved(A, B) == {i \in Ids(A) \cap Ids(B) : PId(A, ById(A, i)) # PId(B, ById(B, i))}
SameAttrsById(A, B) == \A i \in Ids(A) \cap Ids(B) : ById(A, i).a = ById(B, i).a
ProjLW(T) == {[y |-> x.y, d |-> x.d, tok |-> x.tok, lab |-> x.a.lab,
               word |-> IF x.tok THEN x.a.word ELSE "~"] : x \in T.nodes}
NewNodes(A, B) == {x \in B.nodes : x.a.id \notin Ids(A)}

(* ---- C04 ---- *)
C04(op, A, B) ==
  LET n == op.name IN
  IF n \notin Structural THEN {}
  ELSE
   F("C04.tokens",
     IF n \in {"collapse_unary_chains", "uncollapse_unary_chains"}
     THEN SameWords(A, B) /\ TagsUpToPlus(A, B) ELSE SameTokens(A, B)) \cup
   F("C04.labels." \o n,
     CASE n \in KeepBag -> SameLabelBag(CNodes(A), CNodes(B))
       [] n = "add_topnode" ->
            /\ CountLab(CNodes(B), TopAttr.lab) = CountLab(CNodes(A), TopAttr.lab) + 1
            /\ \A l \in {x.a.lab : x \in CNodes(A) \cup CNodes(B)} \ {TopAttr.lab} :
                  CountLab(CNodes(A), l) = CountLab(CNodes(B), l)
       [] n = "boyd_split" ->
            \A l \in {x.a.lab : x \in CNodes(A) \cup CNodes(B)} :
               CountLab(CNodes(B), l) =
                 FoldSet(LAMBDA x, acc : acc + Cardinality(Runs(x.y)), 0,
                         {x \in CNodes(A) : x.a.lab = l})
       [] n = "raising" ->
            SameLabelBag({x \in CNodes(A) : ~(x.a.split = "T" /\ x.a.hb = "F") \/ x.d = 0}, CNodes(B))
       [] n = "binarize" ->
            /\ Ids(A) \subseteq Ids(B)
            /\ \A i \in Ids(A) : ById(A, i).a.lab = ById(B, i).a.lab
            /\ \A x \in NewNodes(A, B) : ~x.tok /\ Len(x.a.lab) > 0 /\ x.a.lab[1] = "@"
       [] OTHER -> SameBag(PieceBag(A), PieceBag(B)))

(* ---- C12 ---- *)
C12(op, A, B) ==
  IF op.name # "root_attach" THEN {}
  ELSE F("C12.exact", B = RootAttach(A)) \cup
       F("C12.only_root_children_move",
         /\ Ids(A) = Ids(B)
         /\ \A i \in Moved(A, B) : PId(A, ById(A, i)) = Root(A).a.id) \cup
       F("C12.attrs_unchanged", SameAttrsById(A, B)) \cup
       F("C12.edges_stay",
         \A i \in Ids(A) \cap Ids(B) :
            LET x == ById(A, i) IN
            (PId(A, x) = Root(A).a.id /\ (1 \in x.y \/ A.n \in x.y))
               => PId(B, ById(B, i)) = Root(B).a.id)

(* ---- C13 ---- *)
OnlyPunctKids(T, c) == \A k \in Kids(T, c) : k.tok /\ IsPunct(k)
RelPartner(T, k, relc) ==
  relc # <<>> /\ k.tok /\ SetMin(k.y) < T.n /\ Tok(T, SetMin(k.y) + 1).a.lab = relc
C13(op, A, B) ==
  LET n == op.name IN
  IF n \notin {"punctuation_verylow", "punctuation_root", "punctuation_symetrify"} THEN {}
  ELSE
   (IF n = "punctuation_verylow" THEN
      F("C13.verylow.sister",
        \A p \in 2..B.n : IsPunct(Tok(B, p)) =>
           \/ Parent(B, Tok(B, p)) = Parent(B, Tok(B, p - 1))
           \/ OnlyPunctKids(B, Parent(B, Tok(B, p))))
    ELSE IF n = "punctuation_root" THEN
      F("C13.root.at_root",
        \A p \in 1..B.n : IsPunct(Tok(B, p)) =>
           \/ Parent(B, Tok(B, p)) = Root(B)
           \/ Cardinality(Kids(B, Parent(B, Tok(B, p)))) = 1)
    ELSE
      F("C13.sym.only_paired_move",
        \A i \in Moved(A, B) : ById(A, i).tok /\ IsPair(ById(A, i))) \cup
      F("C13.sym.joins_pair",
        \A i \in Moved(A, B) : ById(B, i).tok =>
           \E k \in Kids(B, Parent(B, ById(B, i))) :
              k # ById(B, i) /\ k.tok /\ (IsPair(k) \/ RelPartner(B, k, op.relc)))) \cup
   F("C13.nothing_else_moves",
     /\ Ids(A) = Ids(B)
     /\ \A i \in Moved(A, B) : ById(A, i).tok /\ IsPunct(ById(A, i))) \cup
   F("C13.attrs_unchanged", SameAttrsById(A, B))

(* ---- C15 ---- *)
C15(op, A, B) ==
  LET n == op.name IN
  IF n \notin {"negra_mark_heads", "mark_heads_by_rules"} THEN {}
  ELSE
   F("C15.one_head",
     /\ OneHead(B) /\ Root(B).a.head = "F"
     /\ \A x \in B.nodes : x.a.head \in {"T", "F"}) \cup
   F("C15.structure_unchanged", Shape(A) = Shape(B) /\ Ids(A) = Ids(B)) \cup
   \* C05 is stated for "head marking; boyd_split; raising" with the heads the documented marker assigns
   \* (NeGra heuristic on the edge labels / rule presets): a marking without exactly one head per
   \* constituent, or with another head than the documented one, already breaks that pipeline (the run
   \* kept in place is the run of the head child)
   (LET exact ==
          IF n = "negra_mark_heads" THEN
             \A c \in CNodes(B) : LET ks == KidsSeq(B, c) IN ks[NegraHeadIdx(ks)].a.head = "T"
          ELSE
             \A c \in CNodes(B) :
                LET ks == KidsSeq(B, c)  pc == Cat(c.a.lab)
                    L == {i \in 1..Len(ks) : Listed(op.rules, pc, Cat(ks[i].a.lab))}
                IN Cardinality(L) = 1 => ks[CHOOSE i \in L : TRUE].a.head = "T"
    IN F("C05.head_marking", OneHead(B) /\ exact) \cup
       F(IF n = "negra_mark_heads" THEN "C15.negra.exact" ELSE "C15.rules.unique_listed", exact))

(* ---- C05 ---- *)
C05split(A, B) ==
  F("C05.split.blocks",
    {[y |-> x.y, d |-> x.d, tok |-> x.tok, lab |-> x.a.lab, split |-> x.a.split, bn |-> x.a.bn] : x \in B.nodes}
    = {[y |-> x.y, d |-> x.d, tok |-> x.tok, lab |-> x.a.lab, split |-> x.a.split, bn |-> x.a.bn] :
          x \in BoydSplit(A).nodes}) \cup
  F("C05.split.one_head_block",
    \A x \in CNodes(A) : Cardinality(Runs(x.y)) > 1 =>
       Cardinality({z \in CNodes(B) : z.a.split = "T" /\ z.d = x.d /\ z.a.lab = x.a.lab
                                      /\ z.y \in Runs(x.y) /\ z.a.hb = "T"}) = 1) \cup
  F("C05.split.continuous", Continuous(B))
\* P = the tree before boyd_split (heads marked)
C05raise(P, B) ==
  F("C05.continuous", Continuous(B)) \cup
  F("C05.tokens", SameTokens(P, B)) \cup
  F("C05.labels", SameLabelBag(CNodes(P), CNodes(B))) \cup
  F("C05.identity_on_continuous", Continuous(P) => ProjLW(B) = ProjLW(P)) \cup
  F("C05.exact",
    ProjLW(B) = ProjLW([P EXCEPT !.nodes =
                   Norm({IF x.tok THEN x ELSE [x EXCEPT !.y = HeadRun(P, x)] : x \in P.nodes})]))
C05(op, A, B, mem) ==
  IF op.name = "boyd_split" THEN C05split(A, B)
  ELSE IF op.name = "raising" /\ mem.presplit.n > 0 THEN C05raise(mem.presplit, B)
  ELSE {}

(* ---- C14 ---- *)
NearestOld(A, B, x) ==    \* the lowest ancestor of x in B that existed in A
  LET S == {z \in Ancs(B, x) : z.a.id \in Ids(A)} IN IF S = {} THEN x ELSE Lowest(S)
C14(op, A, B, mem) ==
  LET n == op.name IN
  IF n = "binarize" THEN
    F("C14.bin.arity", \A x \in CNodes(B) : Cardinality(Kids(B, x)) <= 2) \cup
    F("C14.bin.only_at_nodes",
      \A x \in NewNodes(A, B) :
         /\ ~x.tok
         /\ x.a.lab = (IF op.bare THEN <<"@">> ELSE <<"@">> \o NoCoindex(NearestOld(A, B, x).a.lab))) \cup
    F("C14.bin.contract",
      Norm({x \in B.nodes : x.a.id \in Ids(A)}) = A.nodes)
  ELSE IF n = "collapse_unary_chains" THEN
    F("C14.col.no_unary", \A x \in CNodes(B) : Cardinality(Kids(B, x)) # 1) \cup
    F("C14.col.labels_joined", ProjLW(B) = ProjLW(Collapse(A)))
  \* the property is stated for labels without '+': after an earlier collapse the labels contain '+' and
  \* uncollapsing splits those as well (found by TLC -simulate: add_topnode; collapse; collapse; uncollapse)
  ELSE IF n = "uncollapse_unary_chains" /\ mem.precollapse.n > 0
          /\ \A x \in mem.precollapse.nodes : Len(SplitPlus(x.a.lab)) = 1 THEN
    F("C14.uncol.roundtrip", ProjLW(B) = ProjLW(mem.precollapse))
  ELSE {}

(* ---- C11 (token editing) ---- *)
\* op.rows: ascending sequence of [idx, word, tag] for this sentence
NoEmpty(B) == \A x \in B.nodes : x.y # {}
C11deleted(A, B, P) ==     \* exactly the tokens at positions P are gone
  F("C11.untouched",
    /\ B.n = A.n - Cardinality(P)
    /\ \A q \in (1..A.n) \ P : Tok(B, Rank(q, P)).a = Tok(A, q).a) \cup
  F("C11.renumbered", {x.y : x \in TNodes(B)} = {{q} : q \in 1..B.n}) \cup
  F("C11.pruned", NoEmpty(B)) \cup
  F("C11.structure", StripIds(B) = StripIds(DeleteToks(A, P)))
RECURSIVE ValidInserts(_, _)
ValidInserts(n, rows) ==    \* the rows that are inside the (growing) sentence
  IF rows = <<>> THEN <<>>
  ELSE IF Head(rows).idx >= 1 /\ Head(rows).idx <= n + 1
       THEN <<Head(rows)>> \o ValidInserts(n + 1, Tail(rows))
       ELSE ValidInserts(n, Tail(rows))
C11(op, A, B, wc) ==
  LET n == op.name IN
  IF n = "punctuation_delete" THEN
    C11deleted(A, B, IF PunctPos(A) = 1..A.n THEN {} ELSE PunctPos(A))
  ELSE IF n = "delete_terminal" THEN C11deleted(A, B, {op.pos})
  ELSE IF n = "ptb_delete_traces" THEN
    LET K == KeptTraces(A, op, wc)
        keepco == "keepcoindex" \in op.flags
        P == TracePos(A) \ K
    IN F("C11.untouched",
         /\ B.n = A.n - Cardinality(P)
         /\ \A q \in (1..A.n) \ TracePos(A) : Tok(B, Rank(q, P)).a = Tok(A, q).a) \cup
       F("C11.renumbered", {x.y : x \in TNodes(B)} = {{q} : q \in 1..B.n}) \cup
       F("C11.pruned", NoEmpty(B)) \cup
       F("C11.no_traces",
         /\ \A x \in TNodes(B) : x.a.lab # NONE_TAG
         /\ Cardinality({x \in TNodes(B) : x.a.word = "-NONE-"}) = Cardinality(K)) \cup
       F("C11.no_indices",
         \A x \in CNodes(B) : LET p == Parse(x.a.lab, DefaultGfSep) IN
                               p.gap = <<>> /\ (keepco \/ p.co = <<>>)) \cup
       F("C11.structure", Shape(B) = Shape(PtbDeleteTraces(A, op, wc)))
  ELSE IF n = "insert_terminals" THEN
    LET V == ValidInserts(A.n, op.rows)
        I == {V[k].idx : k \in 1..Len(V)}
    IN F("C11.inserted_at",
         /\ B.n = A.n + Len(V)
         /\ \A k \in 1..Len(V) : B.n >= V[k].idx =>
               /\ Tok(B, V[k].idx).a.word = V[k].word /\ Tok(B, V[k].idx).a.lab = V[k].tag) \cup
       F("C11.untouched",
         /\ B.n = A.n + Len(V)
         /\ LET old == SortedSeq({p \in 1..B.n : p \notin I}, LAMBDA v : v) IN
            /\ Len(old) = A.n
            /\ \A q \in 1..A.n : Tok(B, old[q]).a = Tok(A, q).a) \cup
       F("C11.out_of_range_ignored", Len(V) = 0 => StripIds(B) = StripIds(A)) \cup
       F("C11.structure", StripIds(B) = StripIds(InsertTerminals(A, op.rows)))
  ELSE IF n = "substitute_terminals" THEN
    LET V == {k \in 1..Len(op.rows) : op.rows[k].idx \in 1..A.n}
        I == {op.rows[k].idx : k \in V}
    IN F("C11.untouched",
         /\ B.n = A.n /\ Shape(A) = Shape(B)
         /\ \A q \in (1..A.n) \ I : Tok(B, q).a = Tok(A, q).a
         /\ \A x \in CNodes(A) : \E z \in CNodes(B) : z = x) \cup
       F("C11.substituted",
         \A k \in V : LET r == op.rows[k] IN
            /\ Tok(B, r.idx).a.word = r.word
            /\ Tok(B, r.idx).a.lab = (IF r.tag = <<>> THEN Tok(A, r.idx).a.lab ELSE r.tag)) \cup
       F("C11.out_of_range_ignored", V = {} => B = A)
  ELSE {}

\* boyd_split makes one node per block OF WHICH raising removes all but the head block:
\* after the pair every original constituent is represented exactly once again
C04pipeline(op, B, mem) ==
  IF op.name = "raising" /\ mem.presplit.n > 0
  THEN F("C04.labels.split_then_raise", SameLabelBag(CNodes(mem.presplit), CNodes(B))) ELSE {}
Clauses(op, A, B, mem, wc) ==
  C04(op, A, B) \cup C04pipeline(op, B, mem) \cup C12(op, A, B) \cup C13(op, A, B) \cup C15(op, A, B) \cup
  C05(op, A, B, mem) \cup C14(op, A, B, mem) \cup C11(op, A, B, wc)

NoTree == [n |-> 0, nodes |-> {}]
Mem0 == [presplit |-> NoTree, precollapse |-> NoTree]
MemNext(op, A, mem) ==
  [presplit |-> IF op.name = "boyd_split" THEN A
                ELSE IF op.name = "raising" THEN mem.presplit ELSE NoTree,
   precollapse |-> IF op.name = "collapse_unary_chains" THEN A
                   ELSE IF op.name = "uncollapse_unary_chains" THEN mem.precollapse ELSE NoTree]
=============================================================================

---------------------------- MODULE Trace_Readers ----------------------------
(***************************************************************************)
(* Trace validation for C01: a case is one input file given to one real    *)
(* reader; the events are what the reader generator did: Yield(raw graph), *)
(* Error(exception), Eof.  Two kinds of cases:                             *)
(*   "tokens" : a lexer-token sequence enumerated by MC_BracketAutomaton;  *)
(*              the yields must be the denotations of the well-formed      *)
(*              groups and an error must be raised exactly for an          *)
(*              ill-formed (or truncated) group                            *)
(*   "corpus" : an intended corpus rendered in a format; the rendering is  *)
(*              first decoded by the independent decoder (machinery check) *)
(*              and every yield compared with the intended tree            *)
(***************************************************************************)
EXTENDS Readers, Json, IOUtils
Doc   == JsonDeserialize(IOEnv.TRACE_FILE)
Cases == Doc.cases
BrTab == Doc.config.brtab
VARIABLES tid, l, nyield, errs, done
Case == Cases[tid]
O == {Case.opts[i] : i \in 1..Len(Case.opts)}
Sep == Case.sep[1]
Four == Case.four = "T"
Toks == [i \in 1..Len(Case.toks) |-> [c |-> Case.toks[i][1], x |-> Case.toks[i][2]]]
D == Decl(Toks, O, Sep)
NExp == IF Case.kind = "tokens" THEN Len(D.out) ELSE Len(Case.trees)
ExpErr == IF Case.kind = "tokens" THEN D.err ELSE FALSE

\* the rendered input decodes to the intended corpus (a failure here is a machinery error)
InputOK ==
  IF Case.kind # "corpus" THEN TRUE
  ELSE \A k \in 1..Len(Case.trees) :
    LET T == TreeOfJson(Case.trees[k]) IN
    CASE Case.fmt = "export" ->
           /\ ExportWF(Case.input[k], Four) /\ ExportSid(Case.input[k]) = Case.sids[k]
           /\ ProjFile(DecodeExport(Case.input[k], Four)) = CarryExport(T, {}, "-", Four)
      [] Case.fmt = "tigerxml" ->
           /\ TigerWF(Case.input[k]) /\ ProjFile(DecodeTiger(Case.input[k])) = CarryTigerIn(T)
      [] OTHER -> TRUE

YieldErrs(e, k) ==
  LET wf == WFClauses(e.g) IN
  {"C01." \o c : c \in wf} \cup
  (IF wf # {} THEN {}
   ELSE IF k > NExp THEN {"C01.count.extra_tree"}
   ELSE LET A == Abs(e.g) IN
     IF Case.kind = "tokens" THEN
        F("C01.illformed_rejected.no_other_tree", GotRead("brackets", A, O) = RItemNodes(D.out[k], 1, 0, O)) \cup
        F("C01.sid", e.g.sid = Case.firstid + k - 1)
     ELSE
        LET exp == ExpRead(Case.fmt, TreeOfJson(Case.trees[k]), O, Sep, BrTab, Four)
            got == GotRead(Case.fmt, A, O)
            proj(S, f(_)) == {f(r) : r \in S}
        IN
        F("C01.dominance", proj(got, LAMBDA r : <<r.y, r.d, r.tok>>) = proj(exp, LAMBDA r : <<r.y, r.d, r.tok>>)) \cup
        F("C01.tokens", {r \in got : r.tok} = {r \in exp : r.tok}) \cup
        F("C01.labels", proj(got, LAMBDA r : <<r.y, r.d, r.tok, r.lab>>) = proj(exp, LAMBDA r : <<r.y, r.d, r.tok, r.lab>>)) \cup
        F("C01.fields", got = exp) \cup
        F("C01.sid", e.g.sid = Case.expsids[k]))

TInit == /\ tid \in 1..Len(Cases) /\ l = 0 /\ nyield = 0 /\ done = FALSE
         /\ errs = IF InputOK THEN {} ELSE {<<"machinery.input_not_decodable", 0>>}
TYield == /\ ~done /\ l < Len(Case.events) /\ Case.events[l + 1].a = "yield"
          /\ l' = l + 1 /\ nyield' = nyield + 1
          /\ errs' = errs \cup {<<c, l + 1>> : c \in YieldErrs(Case.events[l + 1], nyield + 1)}
          /\ UNCHANGED <<tid, done>>
TError == /\ ~done /\ l < Len(Case.events) /\ Case.events[l + 1].a = "error"
          /\ l' = l + 1
          /\ errs' = errs \cup {<<c, l + 1>> : c \in
                F(IF Case.kind = "tokens" THEN "C01.illformed_rejected.wellformed_accepted" ELSE "C01.raised", ExpErr) \cup
                F("C01.count", nyield = NExp)}
          /\ UNCHANGED <<tid, nyield, done>>
TEof == /\ ~done /\ l < Len(Case.events) /\ Case.events[l + 1].a = "eof"
        /\ l' = l + 1
        /\ errs' = errs \cup {<<c, l + 1>> : c \in
              F("C01.illformed_rejected.error_raised", ~ExpErr) \cup
              F("C01.count", nyield = NExp) \cup
              F("C01.quiet", ("quiet" \in O) => Case.events[l + 1].printed = 0)}
        /\ UNCHANGED <<tid, nyield, done>>
TDone == /\ ~done /\ l = Len(Case.events) /\ done' = TRUE
         /\ PrintT("VERDICT " \o ToJson(
              [id |-> Case.id, steps |-> l, failed |-> errs,
               tags |-> {Case.kind, Case.fmt} \cup O \cup
                        (IF Case.kind = "tokens" /\ ExpErr /\ ~Decl(SubSeq(Toks, 1, Len(Toks)), O, Sep).err THEN {} ELSE {}),
               nontrivial |-> (nyield > 0)]))
         /\ UNCHANGED <<tid, l, nyield, errs>>
TNext == TYield \/ TError \/ TEof \/ TDone
=============================================================================

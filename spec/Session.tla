------------------------------- MODULE Session -------------------------------
(***************************************************************************)
(* One run of `treetools transform SRC DEST ...` as a state machine        *)
(* (transform.run): option parsing is abstracted into the record `args`;   *)
(* per file  OpenDest ; Begin ; ( ReadNext ; Apply* ; Write )* ; End ;     *)
(* directory mode iterates over the files of SRC (DEST_i = SRC_i + ".dest");*)
(* with --split all trees are read and transformed first, the part sizes   *)
(* come from Split.Parse, and the trees are distributed in order.          *)
(* Trees are opaque here: [id, len, disc]; what a file DENOTES is handled  *)
(* by Formats/Readers/Writers.  A written file is a sequence of items      *)
(* "BEGIN", tree ids, "END".  Properties: C03 (framing, order, totality),  *)
(* C17 (distribution), C18 (the run's result is a function of its inputs). *)
(***************************************************************************)
EXTENDS Split

CONSTANTS Corpora      \* set of corpora: sequences of trees [id, len, disc]

VARIABLES args,        \* [src (sequence of corpora: 1 = file, >1 = directory), destfmt, split, filt]
          pc, fidx, pos, cur, kept, fs, parts, pidx, written, status
svars == <<args, pc, fidx, pos, cur, kept, fs, parts, pidx, written, status>>

Unframed == "split_parts_unframed" \in Dev
CanWrite(fmt, t) == ~(fmt = "brackets" /\ t.disc)
Keeps(filt, t) == ~(filt.on /\ ((filt.op = "lt" /\ t.len < filt.val) \/ (filt.op = "gt" /\ t.len > filt.val)
                                 \/ (filt.op = "eq" /\ t.len = filt.val)))
DestName(i) == IF Len(args.src) = 1 THEN "DEST" ELSE "SRC" \o ToString(i) \o ".dest"
PartName(i) == "DEST." \o ToString(i - 1)

SInit(a) == /\ args = a /\ pc = "start" /\ fidx = 1 /\ pos = 0 /\ cur = <<>> /\ kept = <<>>
            /\ fs = [n \in {} |-> <<>>] /\ parts = <<>> /\ pidx = 0 /\ written = 0 /\ status = "running"
WriteTo(name, item) == fs' = [n \in DOMAIN fs \cup {name} |-> IF n = name THEN (IF n \in DOMAIN fs THEN fs[n] ELSE <<>>) \o <<item>>
                                                        ELSE fs[n]]
Create(name) == fs' = [n \in DOMAIN fs \cup {name} |-> IF n = name THEN <<>> ELSE fs[n]]

\* ---- no split: one destination per source file ----
Start == /\ pc = "start"
         /\ pc' = IF args.split = <<>> THEN "open" ELSE IF Len(args.src) > 1 THEN "done" ELSE "readall"
         /\ status' = IF args.split # <<>> /\ Len(args.src) > 1 THEN "error" ELSE status  \* cannot split a directory
         /\ UNCHANGED <<args, fidx, pos, cur, kept, fs, parts, pidx, written>>
OpenDest == /\ pc = "open" /\ Create(DestName(fidx)) /\ pc' = "begin"
            /\ UNCHANGED <<args, fidx, pos, cur, kept, parts, pidx, written, status>>
Begin == /\ pc = "begin" /\ WriteTo(DestName(fidx), "BEGIN") /\ pc' = "loop" /\ pos' = 0
         /\ UNCHANGED <<args, fidx, cur, kept, parts, pidx, written, status>>
ReadNext == /\ pc = "loop" /\ pos < Len(args.src[fidx])
            /\ pos' = pos + 1 /\ cur' = <<args.src[fidx][pos + 1]>> /\ pc' = "apply"
            /\ UNCHANGED <<args, fidx, kept, fs, parts, pidx, written, status>>
Apply == /\ pc = "apply"
         /\ IF Keeps(args.filt, cur[1]) THEN pc' = "write" /\ UNCHANGED cur
            ELSE pc' = "loop" /\ cur' = <<>>
         /\ UNCHANGED <<args, fidx, pos, kept, fs, parts, pidx, written, status>>
Write == /\ pc = "write"
         /\ IF CanWrite(args.destfmt, cur[1])
            THEN /\ WriteTo(DestName(fidx), cur[1].id) /\ pc' = "loop" /\ UNCHANGED status
            ELSE /\ pc' = "done" /\ status' = "error" /\ UNCHANGED fs     \* the writer refuses: the run aborts
         /\ UNCHANGED <<args, fidx, pos, cur, kept, parts, pidx, written>>
End == /\ pc = "loop" /\ pos = Len(args.src[fidx])
       /\ WriteTo(DestName(fidx), "END")
       /\ IF fidx < Len(args.src) THEN fidx' = fidx + 1 /\ pc' = "open" /\ UNCHANGED status
          ELSE pc' = "done" /\ status' = "ok" /\ UNCHANGED fidx
       /\ UNCHANGED <<args, pos, cur, kept, parts, pidx, written>>

\* ---- split: read and transform everything, then distribute ----
ReadAll == /\ pc = "readall"
           /\ kept' = SelectSeq(args.src[1], LAMBDA t : Keeps(args.filt, t))
           /\ pc' = "spec"
           /\ UNCHANGED <<args, fidx, pos, cur, fs, parts, pidx, written, status>>
ParseSpec == /\ pc = "spec"
             /\ LET r == SplitParse(args.split, Len(kept)) IN
                IF r.rejected THEN pc' = "done" /\ status' = "error" /\ UNCHANGED parts
                ELSE parts' = r.parts /\ pc' = "part" /\ UNCHANGED status
             /\ pidx' = 1 /\ written' = 0
             /\ UNCHANGED <<args, fidx, pos, cur, kept, fs>>
OpenPart == /\ pc = "part" /\ pidx <= Len(parts)
            /\ fs' = [n \in DOMAIN fs \cup {PartName(pidx)} |->
                        IF n = PartName(pidx) THEN (IF Unframed THEN <<>> ELSE <<"BEGIN">>) ELSE fs[n]]
            /\ pc' = "fill" /\ pos' = 0
            /\ UNCHANGED <<args, fidx, cur, kept, parts, pidx, written, status>>
FillPart == /\ pc = "fill" /\ pos < parts[pidx]
            /\ IF CanWrite(args.destfmt, kept[written + 1])
               THEN /\ WriteTo(PartName(pidx), kept[written + 1].id) /\ written' = written + 1 /\ pos' = pos + 1
                    /\ UNCHANGED <<pc, status>>
               ELSE /\ pc' = "done" /\ status' = "error" /\ UNCHANGED <<fs, written, pos>>
            /\ UNCHANGED <<args, fidx, cur, kept, parts, pidx>>
ClosePart == /\ pc = "fill" /\ pos = parts[pidx]
             /\ (IF Unframed THEN UNCHANGED fs ELSE WriteTo(PartName(pidx), "END"))
             /\ IF pidx < Len(parts) THEN pidx' = pidx + 1 /\ pc' = "part" /\ UNCHANGED status
                ELSE pc' = "done" /\ status' = "ok" /\ UNCHANGED pidx
             /\ UNCHANGED <<args, fidx, pos, cur, kept, parts, written>>
SNext == Start \/ OpenDest \/ Begin \/ ReadNext \/ Apply \/ Write \/ End
         \/ ReadAll \/ ParseSpec \/ OpenPart \/ FillPart \/ ClosePart

\* ---- properties of a finished run ----
Ids(s) == [i \in 1..Len(s) |-> s[i].id]
KeptOf(c, filt) == SelectSeq(c, LAMBDA t : Keeps(filt, t))
Framed(f) == Len(f) >= 2 /\ f[1] = "BEGIN" /\ f[Len(f)] = "END"
             /\ \A i \in 2..(Len(f) - 1) : f[i] \notin {"BEGIN", "END"}
Body(f) == SubSeq(f, 2, Len(f) - 1)
AllWritable(c, fmt, filt) == \A i \in 1..Len(c) : Keeps(filt, c[i]) => CanWrite(fmt, c[i])
\* C03: total (status ok whenever the destination format can represent the kept trees),
\* every destination complete, trees in order
C03ok ==
  (pc = "done" /\ args.split = <<>>) =>
     /\ (status = "ok") <=> (\A i \in 1..Len(args.src) : AllWritable(args.src[i], args.destfmt, args.filt))
     /\ (status = "ok" =>
           /\ DOMAIN fs = {DestName(i) : i \in 1..Len(args.src)}
           /\ \A i \in 1..Len(args.src) :
                 Framed(fs[DestName(i)]) /\ Body(fs[DestName(i)]) = Ids(KeptOf(args.src[i], args.filt)))
\* C17: every tree in exactly one part, parts in order reproduce the unsplit sequence, each part complete
C17ok ==
  (pc = "done" /\ args.split # <<>> /\ Len(args.src) = 1) =>
     LET K == KeptOf(args.src[1], args.filt)  r == SplitParse(args.split, Len(K)) IN
     /\ (status = "ok") <=> (~r.rejected /\ AllWritable(args.src[1], args.destfmt, args.filt))
     /\ (status = "ok" =>
           /\ DOMAIN fs = {PartName(i) : i \in 1..Len(r.parts)}
           /\ \A i \in 1..Len(r.parts) : Framed(fs[PartName(i)]) /\ Len(Body(fs[PartName(i)])) = r.parts[i]
           /\ FoldLeft(LAMBDA acc, i : acc \o Body(fs[PartName(i)]), <<>>, [i \in 1..Len(r.parts) |-> i]) = Ids(K))
=============================================================================

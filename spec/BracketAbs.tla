----------------------------- MODULE BracketAbs -----------------------------
(***************************************************************************)
(* The bookkeeping of the bracket reader automaton with the queue of open  *)
(* nodes abstracted to its length and the output to its count:             *)
(*   a = [state, level, termCnt, cnt, nout, err]                           *)
(* AStep(a, c, emptypos) is BracketReader!RdStep restricted to these       *)
(* fields (c = lexer-token class).  TLC checks on every token sequence up  *)
(* to the bound that the abstraction commutes with RdStep                  *)
(* (MC_BracketAutomaton!InvAbs); Apalache shows that AInv is an inductive  *)
(* invariant of AStep, i.e. holds after token sequences of EVERY length    *)
(* (Apa_BracketAuto).  The type annotations are comments to TLC.           *)
(***************************************************************************)
EXTENDS Integers

\* @typeAlias: astate = {state: Int, level: Int, termCnt: Int, cnt: Int, nout: Int, err: Bool};
\* @type: ($astate, Str, Bool) => $astate;
AStep(a, c, emptypos) ==
  IF a.err THEN a
  ELSE IF c = "LRB" THEN
     IF a.state \in {0, 2, 3, 5, 9}
     THEN [a EXCEPT !.level = @ + 1, !.state = IF a.state = 0 THEN 9 ELSE 1]
     ELSE [a EXCEPT !.err = TRUE]
  ELSE IF c = "RRB" THEN
     IF a.state = 0 THEN a
     ELSE IF a.state \in {2, 4, 5} /\ ~(a.state = 2 /\ ~emptypos)
     THEN IF a.level = 1      \* level 0 reached: the sentence is closed
          THEN [a EXCEPT !.nout = @ + 1, !.cnt = @ + 1, !.state = 0, !.level = 0, !.termCnt = 1]
          ELSE [a EXCEPT !.state = 5, !.level = @ - 1, !.termCnt = IF a.state = 2 THEN @ + 1 ELSE @]
     ELSE [a EXCEPT !.err = TRUE]
  ELSE IF c = "WS" THEN (IF a.state = 2 THEN [a EXCEPT !.state = 3] ELSE a)
  ELSE \* TOKEN
     IF a.state = 0 THEN a
     ELSE IF a.state \in {1, 9} THEN [a EXCEPT !.state = 2]
     ELSE IF a.state = 3 THEN [a EXCEPT !.state = 4, !.termCnt = @ + 1]
     ELSE [a EXCEPT !.err = TRUE]

\* @type: (Int) => $astate;
A0(firstid) == [state |-> 0, level |-> 0, termCnt |-> 1, cnt |-> firstid, nout |-> 0, err |-> FALSE]

\* the bookkeeping invariant: between sentences nothing is open and the terminal counter is reset, inside a
\* sentence something is open, the sentence id is the first id plus the number of sentences delivered
\* @type: ($astate, Int) => Bool;
AInv(a, firstid) ==
  /\ a.state \in {0, 1, 2, 3, 4, 5, 9}
  /\ a.level >= 0 /\ a.termCnt >= 1 /\ a.nout >= 0
  /\ (a.state = 0 <=> a.level = 0)
  /\ (a.state = 0 => a.termCnt = 1)
  /\ (a.state = 9 => a.level = 1 /\ a.termCnt = 1)
  /\ a.cnt = firstid + a.nout
=============================================================================

---------------------------- MODULE MC_HeadRules ----------------------------
(***************************************************************************)
(* Bounded model for the rule-based part of C15: for both presets, every   *)
(* parent category of the table, every child sequence of length <= MaxLen  *)
(* in which exactly one child's category is listed in the parent's rule    *)
(* (all others carry an unlisted category), with label decorations.  One   *)
(* state per case, no transitions; the documented interpreter              *)
(* (Transform.RuleMarkHeads) must satisfy C15 on each.                     *)
(***************************************************************************)
EXTENDS TransformProps, TreeGen, Json
CONSTANTS RulesTab,      \* [negra |-> rules, ptb |-> rules]
          Decos,         \* set of decoration suffixes (character sequences)
          MaxLen, Stride, Offset
VARIABLE c

UpperTab == [x \in {LowerTab[k] : k \in DOMAIN LowerTab} |-> CHOOSE k \in DOMAIN LowerTab : LowerTab[k] = x]
Upper(s) == [i \in 1..Len(s) |-> IF s[i] \in DOMAIN UpperTab THEN UpperTab[s[i]] ELSE s[i]]
Listed2(rules, pc) ==
  UNION {{RuleOf(rules, pc)[r][2][k] : k \in 1..Len(RuleOf(rules, pc)[r][2])} : r \in 1..Len(RuleOf(rules, pc))}
Unlisted == <<"Z", "Z">>

TreeFor(parent, kids) ==
  LET k == Len(kids)
      flat == Flat(k, ConsAttr(<<"V", "R", "O", "O", "T">>, "--"),
                   [p \in 1..k |-> TokAttr("w" \o ToString(p), kids[p], "--")])
  IN AddCons(flat, 1..k, ConsAttr(parent, "--"))

Init == \E preset \in {"negra", "ptb"} :
          LET rules == RulesTab[preset] IN
          \E pi \in {q \in 1..Len(rules) : q % Stride = Offset} : \E k \in 1..MaxLen : \E i \in 1..k :
          \* the listed category at position i, or (lc = Unlisted) no listed child at all: the default
          \* of the rule (first / last child) must still give exactly one head
          \E lc \in Listed2(rules, rules[pi][1]) \cup {Unlisted} : \E deco \in Decos :
             c = [preset |-> preset,
                  tree |-> TreeFor(Upper(rules[pi][1]) \o deco,
                                   [j \in 1..k |-> IF j = i /\ lc # Unlisted THEN Upper(lc) \o deco ELSE Unlisted])]
Next == UNCHANGED c

Op == [name |-> "mark_heads_by_rules", relc |-> <<>>, bare |-> FALSE, pos |-> 0, preset |-> c.preset,
       rules |-> RulesTab[c.preset], keep |-> <<>>, flags |-> {}, rows |-> <<>>, fop |-> "~", fval |-> 0]
InvRef == C15(Op, c.tree, RuleMarkHeads(c.tree, RulesTab[c.preset])) = {}
OpRec(preset) == [name |-> "mark_heads_by_rules", relc |-> <<>>, bare |-> FALSE, pos |-> 0, preset |-> preset,
                  keep |-> <<>>, flags |-> {}, rows |-> <<>>, fop |-> "~", fval |-> 0]
\* the other preset first, then the case's own: a result must not depend on earlier calls (C18 meets C15)
Emit == PrintT("CASE " \o ToJson([tree |-> c.tree,
           ops |-> << OpRec(IF c.preset = "negra" THEN "ptb" ELSE "negra"), OpRec(c.preset) >>]))
=============================================================================

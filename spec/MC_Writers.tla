----------------------------- MODULE MC_Writers -----------------------------
(***************************************************************************)
(* Bounded model for C02: every tree within the bounds (built through the  *)
(* tree API steps of TreeGen), every profile of absent optional fields,    *)
(* every format with every option set of OptSets; at each written state    *)
(* the reference encoder of the format is decoded by the independent       *)
(* decoder and must give what the format can carry.                        *)
(***************************************************************************)
EXTENDS Writers, TreeGen, Json
CONSTANTS N, MaxCons, MaxChain, TokKinds, CLabels, CEdges, OptSets, Profiles, BrTab
VARIABLES tree, phase, job
vars == <<tree, phase, job>>
NoJob == [fmt |-> "~", o |-> {}, gfsep |-> "-", sid |-> 0]

Init == /\ \E n \in 1..N : \E tk \in [1..n -> TokKinds] :
             tree = Flat(n, CAttrC(VRootC, Dash2),
                         [p \in 1..n |-> [TAttrC(IF tk[p].sfx THEN tk[p].word \o NumChars(p) ELSE tk[p].word, tk[p].tag, tk[p].edge)
                                          EXCEPT !.lemma = tk[p].lemma, !.morph = tk[p].morph]])
        /\ phase = "build" /\ job = NoJob
Build == /\ phase = "build"
         /\ \E Y \in Cands(tree.n) : \E lab \in CLabels : \E e \in CEdges :
               /\ CanAdd(tree, Y, MaxCons, MaxChain)
               /\ tree' = AddCons(tree, Y, CAttrC(lab, e))
         /\ UNCHANGED <<phase, job>>
Seal == /\ phase = "build"
        /\ \E pf \in Profiles :
             tree' = [tree EXCEPT !.nodes =
                {LET hd == IF ~HasParent(tree, x) THEN "F"
                           ELSE IF KidsSeq(tree, Parent(tree, x))[1] = x THEN "T" ELSE "F"
                 IN [x EXCEPT !.a.head = hd,
                              !.a.split = IF Cardinality(x.y) % 2 = 0 THEN "T" ELSE "F",
                              !.a.bn = 1 + (SetMin(x.y) % 2),
                              !.a.lemma = IF "lemma" \in pf /\ x.d > 0 THEN NoneC ELSE @,
                              !.a.morph = IF "morph" \in pf /\ x.d > 0 THEN NoneC ELSE @,
                              !.a.edge = IF "edge" \in pf /\ x.d > 0 THEN NoneC ELSE @] : x \in @}]
        /\ phase' = "sealed" /\ UNCHANGED job
Write == /\ phase = "sealed"
         /\ \E j \in OptSets : job' = [fmt |-> j.fmt, o |-> j.o, gfsep |-> j.gfsep, sid |-> 1 + (tree.n % 3) * 7]
         /\ phase' = "written" /\ UNCHANGED tree
Next == Build \/ Seal \/ Write

Four == "export_four" \in job.o
InvEncodeDecode == phase = "written" =>
  CASE job.fmt = "export" ->
         (TRUE =>
            LET L == RefExportLines(tree, job.sid, job.o, job.gfsep, Four) IN
            /\ ExportWF(L, Four) /\ ExportOrder(L) /\ ExportNumbering(L, Four) /\ ExportSid(L) = job.sid
            /\ ProjFile(DecodeExport(L, Four)) = CarryExport(tree, job.o, job.gfsep, Four))
    [] job.fmt = "brackets" ->
         (GapDeg(tree) = 0 =>
            LET ts == ExpBrackets(tree, job.o \ {"brackets_emptyroot"}, job.gfsep, BrTab)
                g == ParseGroup(ts, 1, 4 * Len(ts) + 4, TRUE, FALSE)
            IN /\ g.ok /\ g.next = Len(ts) + 1
               /\ {[y |-> n.y, d |-> n.d, tok |-> n.tok] : n \in ItemNodes(g.item, 1, 0)} = Shape(tree))
    [] job.fmt = "tigerxml" ->
         LET s == RefTiger(tree, job.sid) IN
         TigerWF(s) /\ ProjFile(DecodeTiger(s)) = CarryTiger(tree)
    [] OTHER -> TRUE
Emit == phase = "written" =>
  PrintT("CASE " \o ToJson([tree |-> tree, sid |-> job.sid, fmt |-> job.fmt, opts |-> job.o, gfsep |-> job.gfsep]))
=============================================================================

---------------------------- MODULE GrammarProps ----------------------------
(***************************************************************************)
(* Property-level clauses for grammar binarization and count conservation  *)
(* (C07, C08), as sets of FAILED clause names.                             *)
(*   Gin  : bag over [func, lin, vert]   (treebank grammar)                *)
(*   Gout : bag over [func, lin]         (binarized grammar, counts)       *)
(*   mode : [reorder \in {"none","optimal"}, markov \in BOOLEAN, ...]      *)
(***************************************************************************)
EXTENDS Grammar

F(name, ok) == IF ok THEN {} ELSE {name}
Strip(r) == [func |-> r.func, lin |-> r.lin]
InRules(Gin) == {Strip(r) : r \in DOMAIN Gin}
CntIn(Gin, q) == SumOver({r \in DOMAIN Gin : Strip(r) = q}, LAMBDA r : Gin[r])
Occ(func, s) == Cardinality({i \in 2..Len(func) : func[i] = s})

C07(Gin, Gout, mode) ==
  LET G == DOMAIN Gout
      I == InRules(Gin)
      Orig == Symbols(I)
      B == Symbols(G) \ Orig
  IN
  F("C07.rank2", \A g \in G : RankOf(g.func) <= 2) \cup
  F("C07.chain_composes",
    \A q \in I : RankOf(q.func) > 2 => ComposesUpTo(G, q.func, q.lin, mode.reorder)) \cup
  F("C07.small_rules_kept",
    \A q \in I : RankOf(q.func) <= 2 => ComposesUpTo(G, q.func, q.lin, mode.reorder)) \cup
  (IF mode.markov THEN {} ELSE
     F("C07.det_unique_labels",
       \A b \in B : /\ Cardinality({g \in G : g.func[1] = b}) = 1
                    /\ SumOver(G, LAMBDA g : Occ(g.func, b)) = 1) \cup
     F("C07.det_unbinarize",
       /\ Cardinality({g \in G : g.func[1] \notin B}) = Cardinality(I)
       /\ Cardinality(G) = SumOver(I, LAMBDA q : IF RankOf(q.func) <= 2 THEN 1 ELSE RankOf(q.func) - 1)))

\* counts: G = bag over [func, lin]; lex = bag over <<word, tag>>; roots, nodecnt = bags over labels
LexTag(lex, s) == SumOver({e \in DOMAIN lex : e[2] = s}, LAMBDA e : lex[e])
Flow(G, lex, roots) ==
  \A s \in Symbols(DOMAIN G) \cup {e[2] : e \in DOMAIN lex} \cup DOMAIN roots :
     SumOver({g \in DOMAIN G : g.func[1] = s}, LAMBDA g : G[g]) + LexTag(lex, s)
       = SumOver(DOMAIN G, LAMBDA g : G[g] * Occ(g.func, s)) + BagGet(roots, s)
LhsTotals(G, nodecnt) ==
  \A l \in DOMAIN nodecnt :
     SumOver({g \in DOMAIN G : g.func[1] = l}, LAMBDA g : G[g]) = nodecnt[l]
SumVert(Gin) == [q \in InRules(Gin) |-> CntIn(Gin, q)]
C08(Gin, Gout, mode, lex, roots, nodecnt) ==
  F("C08.lhs_totals", LhsTotals(Gout, nodecnt)) \cup
  F("C08.flow", Flow(Gout, lex, roots)) \cup
  (IF mode.markov \/ mode.reorder # "none" THEN {} ELSE
     F("C08.sum_not_last",
       \A q \in InRules(Gin) : RankOf(q.func) <= 2 => BagGet(Gout, q) = CntIn(Gin, q)))
=============================================================================

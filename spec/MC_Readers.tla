----------------------------- MODULE MC_Readers -----------------------------
(***************************************************************************)
(* Bounded model for C01 (corpus level): every tree within the bounds x    *)
(* (reader format, option set).  Model-level check: the reader automaton   *)
(* run on the reference bracket encoding of a continuous tree yields that  *)
(* tree (Read(Write(t)) = t); the export / TIGER counterparts are checked  *)
(* in MC_Writers.  Every (tree, job) is emitted as a CASE.                 *)
(***************************************************************************)
EXTENDS Readers, Writers, TreeGen, Json
CONSTANTS N, MaxCons, MaxChain, TokKinds, CLabels, CEdges, Jobs, BrTab
VARIABLES tree, phase, job
NoJob == [fmt |-> "~", o |-> {}, sep |-> "-"]
Init == /\ \E n \in 1..N : \E tk \in [1..n -> TokKinds] :
             tree = Flat(n, CAttrC(VRootC, Dash2),
                         [p \in 1..n |-> [TAttrC(IF tk[p].sfx THEN tk[p].word \o NumChars(p) ELSE tk[p].word, tk[p].tag, tk[p].edge)
                                          EXCEPT !.lemma = tk[p].lemma, !.morph = tk[p].morph]])
        /\ phase = "build" /\ job = NoJob
Build == /\ phase = "build"
         /\ \E Y \in Cands(tree.n) : \E lab \in CLabels : \E e \in CEdges :
               /\ CanAdd(tree, Y, MaxCons, MaxChain)
               /\ tree' = AddCons(tree, Y, CAttrC(lab, e))
         /\ UNCHANGED <<phase, job>>
Read == /\ phase = "build" /\ \E j \in Jobs : job' = j
        /\ phase' = "read" /\ UNCHANGED tree
Next == Build \/ Read

ToLex(ts) ==      \* writer token stream -> lexer tokens, whitespace between two plain tokens
  FlattenSeq([i \in 1..Len(ts) |->
     LET t == IF ts[i] = LP THEN [c |-> "LRB", x |-> ts[i]] ELSE IF ts[i] = RP THEN [c |-> "RRB", x |-> ts[i]]
              ELSE [c |-> "TOKEN", x |-> ts[i]]
     IN IF i > 1 /\ t.c = "TOKEN" /\ ts[i - 1] \notin {LP, RP} THEN << [c |-> "WS", x |-> <<" ">>], t >> ELSE << t >>])
\* the bracket writer replaces parentheses inside tokens: Read(Write(t)) = t with the table applied
Repl(T) == [T EXCEPT !.nodes = {IF x.tok THEN [x EXCEPT !.a.word = ReplParens(@, BrTab), !.a.lab = ReplParens(@, BrTab)]
                                ELSE x : x \in @}]
InvReadWrite == (phase = "read" /\ job.fmt = "brackets" /\ GapDeg(tree) = 0) =>
  LET r == RdRun(ToLex(ExpBrackets(tree, {}, "-", BrTab)), job.o \ {"replace_parens"}, job.sep, 1) IN
  /\ ~r.err /\ Len(r.out) = 1
  /\ RItemNodes(r.out[1].item, 1, 0, job.o)
       = {Masked("brackets", x, job.o, ExpAttr("brackets", Repl(tree), x, job.o \ {"replace_parens"}, job.sep, <<>>, FALSE)) :
             x \in Repl(tree).nodes}
Emit == phase = "read" =>
  PrintT("CASE " \o ToJson([tree |-> tree, fmt |-> job.fmt, opts |-> job.o, sep |-> job.sep]))
=============================================================================

------------------------------- MODULE Formats -------------------------------
(***************************************************************************)
(* The tree file formats of treetools as INDEPENDENT DECODERS and          *)
(* ENCODING RELATIONS over lexical records (properties C01 C02 C03 C17).   *)
(* The harness only splits text (whitespace, parentheses, tab, XML via the *)
(* standard library); which line is a node, what its parent is, whether    *)
(* references resolve and which tree a file denotes is decided here.       *)
(* In this family every string field of a tree (lab, word, lemma, morph,   *)
(* edge) is a CHARACTER SEQUENCE; Python's None is NoneC.                  *)
(***************************************************************************)
EXTENDS TreeModel, Labels

NoneC  == <<"~~">>
NA     == <<"n/a">>                  \* field the format does not carry
Dash2  == <<"-", "-">>
VRootC == <<"V", "R", "O", "O", "T">>
DigitC == <<"0", "1", "2", "3", "4", "5", "6", "7", "8", "9">>
RECURSIVE NumChars(_)
NumChars(n) == IF n < 10 THEN <<DigitC[n + 1]>> ELSE NumChars(n \div 10) \o <<DigitC[(n % 10) + 1]>>
Dflt(v, d) == IF v = NoneC THEN d ELSE v
\* attribute records of this family (all string fields are character sequences)
NoAttrC == [NoAttr EXCEPT !.lab = NoneC, !.word = NoneC, !.lemma = NoneC, !.morph = NoneC, !.edge = NoneC]
CAttrC(lab, edge) == [NoAttrC EXCEPT !.lab = lab, !.edge = edge, !.lemma = Dash2, !.morph = Dash2]
TAttrC(word, tag, edge) == [NoAttrC EXCEPT !.lab = tag, !.word = word, !.edge = edge, !.lemma = Dash2, !.morph = Dash2]

\* what a format carries of a node; fields not carried are NA
PN(y, d, tok, word, lab, lemma, morph, edge) ==
  [y |-> y, d |-> d, tok |-> tok, word |-> word, lab |-> lab, lemma |-> lemma, morph |-> morph, edge |-> edge]

\* options: o = set of option names, gfsep = separator character
NodeForLabel(T, x) == [lab |-> x.a.lab, edge |-> Dflt(x.a.edge, Dash2), head |-> x.a.head, split |-> x.a.split,
                       inner |-> ~x.tok]
DecoLabel(T, x, o, gfsep) == Decorate(NodeForLabel(T, x), o, gfsep, NumChars(IF x.a.bn > 0 THEN x.a.bn ELSE 0))

-----------------------------------------------------------------------------
(* generic construction of an abstract tree from a parent map              *)
(* ids: finite set; par[i] \in ids \cup {0}; isTok[i]; pos[i] for tokens   *)
RECURSIVE UpChain(_, _, _, _)
UpChain(par, i, fuel, nil) == IF fuel = 0 \/ par[i] = nil THEN <<>> ELSE <<par[i]>> \o UpChain(par, par[i], fuel - 1, nil)
ChainOK(ids, par, nil) ==
  /\ \A i \in ids : par[i] = nil \/ par[i] \in ids
  /\ \A i \in ids : LET ch == UpChain(par, i, Cardinality(ids) + 1, nil) IN
                    Len(ch) <= Cardinality(ids) /\ (ch = <<>> \/ par[ch[Len(ch)]] = nil)
TreeFrom(ids, par, isTok, pos, attr, rootattr, withRoot, nil) ==
  \* withRoot: add a virtual root above the nodes whose parent is 0
  LET n == Cardinality({i \in ids : isTok[i]})
      anc(i) == LET ch == UpChain(par, i, Cardinality(ids) + 1, nil) IN {ch[k] : k \in 1..Len(ch)}
      yieldOf(c) == {pos[t] : t \in {t \in ids : isTok[t] /\ (t = c \/ c \in anc(t))}}
      off == IF withRoot THEN 1 ELSE 0
  IN [n |-> n,
      nodes |-> {[y |-> yieldOf(i), d |-> Cardinality(anc(i)) + off, tok |-> isTok[i], a |-> attr[i]] : i \in ids}
                \cup (IF withRoot THEN {[y |-> 1..n, d |-> 0, tok |-> FALSE, a |-> rootattr]} ELSE {})]

-----------------------------------------------------------------------------
(* EXPORT format.  line record = [f : fields (char seqs), n : ints (field  *)
(* as integer or -1), wnum : number of a '#ddd' word or -1]                *)
BosC == <<"#", "B", "O", "S">>
EosC == <<"#", "E", "O", "S">>
ExportBody(L) == SubSeq(L, 2, Len(L) - 1)
ExportNF(four) == IF four THEN 6 ELSE 5
ExportWF(L, four) ==
  LET B == ExportBody(L)  nf == ExportNF(four) IN
  /\ Len(L) >= 2
  /\ Len(L[1].f) >= 2 /\ L[1].f[1] = BosC /\ L[1].n[2] >= 0
  /\ Len(L[Len(L)].f) >= 2 /\ L[Len(L)].f[1] = EosC /\ L[Len(L)].n[2] = L[1].n[2]
  /\ \A i \in 1..Len(B) : Len(B[i].f) >= nf /\ B[i].n[nf] >= 0
  \* constituent numbers unique; every parent reference resolves
  /\ \A i, j \in 1..Len(B) : (i # j /\ B[i].wnum >= 0) => B[i].wnum # B[j].wnum
  /\ \A i \in 1..Len(B) : B[i].n[nf] = 0 \/ \E j \in 1..Len(B) : B[j].wnum = B[i].n[nf]
ExportSid(L) == L[1].n[2]
ExportOrder(L) ==          \* tokens first (in sentence order), then constituents ascending
  LET B == ExportBody(L) IN
  /\ \A i, j \in 1..Len(B) : (B[i].wnum < 0 /\ B[j].wnum >= 0) => i < j
  /\ \A i, j \in 1..Len(B) : (B[i].wnum >= 0 /\ B[j].wnum >= 0 /\ i < j) => B[i].wnum < B[j].wnum
ExportNumbering(L, four) == \* unique numbers 500..499+k, children below their parent
  LET B == ExportBody(L)  nf == ExportNF(four)
      C == {i \in 1..Len(B) : B[i].wnum >= 0} IN
  /\ {B[i].wnum : i \in C} = 500..(499 + Cardinality(C))
  /\ \A i \in C : B[i].n[nf] = 0 \/ B[i].n[nf] > B[i].wnum
DecodeExport(L, four) ==
  LET B == ExportBody(L)  nf == ExportNF(four)
      ids == 1..Len(B)
      isTok == [i \in ids |-> B[i].wnum < 0]
      pos == [i \in ids |-> Cardinality({j \in 1..i : B[j].wnum < 0})]
      par == [i \in ids |-> IF B[i].n[nf] = 0 THEN 0 ELSE CHOOSE j \in ids : B[j].wnum = B[i].n[nf]]
      attr == [i \in ids |->
                 IF four THEN PN({}, 0, isTok[i], IF isTok[i] THEN B[i].f[1] ELSE NA, B[i].f[3], B[i].f[2], B[i].f[4], B[i].f[5])
                 ELSE PN({}, 0, isTok[i], IF isTok[i] THEN B[i].f[1] ELSE NA, B[i].f[2], NA, B[i].f[3], B[i].f[4])]
  IN IF ChainOK(ids, par, 0) THEN TreeFrom(ids, par, isTok, pos, attr, PN({}, 0, FALSE, NA, NA, NA, NA, NA), TRUE, 0)
     ELSE [n |-> 0, nodes |-> {}]
\* comparison value: set of PN records
ProjFile(T) == {[x.a EXCEPT !.y = x.y, !.d = x.d] : x \in T.nodes}
CarryExport(T, o, gfsep, four) ==
  {IF x.d = 0 THEN PN(x.y, 0, FALSE, NA, NA, NA, NA, NA)
   ELSE PN(x.y, x.d, x.tok, IF x.tok THEN x.a.word ELSE NA, DecoLabel(T, x, o, gfsep),
           IF four THEN Dflt(x.a.lemma, Dash2) ELSE NA, Dflt(x.a.morph, Dash2), Dflt(x.a.edge, Dash2)) : x \in T.nodes}

-----------------------------------------------------------------------------
(* BRACKET formats.  A file is a sequence of lexical tokens: "(" and ")"   *)
(* as one-character sequences, anything else is a TOKEN (char sequence).   *)
LP == <<"(">>
RP == <<")">>
\* declarative grammar of one group:  Group ::= ( Label? Group+ ) | ( Tag Word )
\* parsing a token sequence from position i; result [ok, next, item]; item = nested record
\* [lab, word, kids]; kids = <<>> for a terminal
RECURSIVE ParseGroup(_, _, _, _, _)
RECURSIVE ParseKids(_, _, _, _)
ParseKids(ts, i, fuel, ep) ==      \* one or more groups until ")"
  IF fuel = 0 \/ i > Len(ts) \/ ts[i] # LP THEN [ok |-> FALSE, next |-> i, items |-> <<>>]
  ELSE LET g == ParseGroup(ts, i, fuel - 1, FALSE, ep) IN
       IF ~g.ok THEN [ok |-> FALSE, next |-> g.next, items |-> <<>>]
       ELSE IF g.next <= Len(ts) /\ ts[g.next] = LP
            THEN LET r == ParseKids(ts, g.next, fuel - 1, ep) IN
                 [ok |-> r.ok, next |-> r.next, items |-> <<g.item>> \o r.items]
            ELSE [ok |-> TRUE, next |-> g.next, items |-> <<g.item>>]
\* top: the group is a whole sentence (only there the label may be empty);
\* ep: option brackets_emptypos, ( Word ) is a terminal with the default tag
ParseGroup(ts, i, fuel, top, ep) ==
  LET bad == [ok |-> FALSE, next |-> i, item |-> [lab |-> NoneC, word |-> NoneC, kids |-> <<>>]] IN
  IF fuel = 0 \/ i + 2 > Len(ts) \/ ts[i] # LP THEN bad
  ELSE IF ts[i + 1] = LP THEN              \* empty label (root, PTB style)
         IF ~top THEN bad ELSE
         LET r == ParseKids(ts, i + 1, fuel - 1, ep) IN
         IF r.ok /\ r.next <= Len(ts) /\ ts[r.next] = RP
         THEN [ok |-> TRUE, next |-> r.next + 1, item |-> [lab |-> NoneC, word |-> NoneC, kids |-> r.items]]
         ELSE bad
  ELSE IF ts[i + 1] = RP THEN bad
  ELSE IF ts[i + 2] = RP THEN              \* ( Word ) with empty POS
         IF ep /\ ~top THEN [ok |-> TRUE, next |-> i + 3, item |-> [lab |-> DefaultLabel, word |-> ts[i + 1], kids |-> <<>>]]
         ELSE bad
  ELSE IF ts[i + 2] = LP THEN              \* ( Label Group+ )
         LET r == ParseKids(ts, i + 2, fuel - 1, ep) IN
         IF r.ok /\ r.next <= Len(ts) /\ ts[r.next] = RP
         THEN [ok |-> TRUE, next |-> r.next + 1, item |-> [lab |-> ts[i + 1], word |-> NoneC, kids |-> r.items]]
         ELSE bad
  ELSE IF i + 3 <= Len(ts) /\ ts[i + 3] = RP  \* ( Tag Word )
       THEN [ok |-> TRUE, next |-> i + 4, item |-> [lab |-> ts[i + 1], word |-> ts[i + 2], kids |-> <<>>]]
       ELSE bad
\* denotation of a parsed group: an abstract tree, terminals numbered left to right
RECURSIVE ItemSize(_)
ItemSize(it) == IF it.kids = <<>> THEN 1
                ELSE FoldLeft(LAMBDA acc, k : acc + ItemSize(k), 0, it.kids)
RECURSIVE ItemNodes(_, _, _)
ItemNodes(it, first, d) ==      \* nodes of item whose first terminal has position `first`
  IF it.kids = <<>> THEN {[y |-> {first}, d |-> d, tok |-> TRUE, word |-> it.word, lab |-> it.lab]}
  ELSE LET offs == [k \in 1..Len(it.kids) |->
                      first + FoldLeft(LAMBDA acc, j : acc + ItemSize(it.kids[j]), 0, [j \in 1..(k - 1) |-> j])]
       IN {[y |-> first..(first + ItemSize(it) - 1), d |-> d, tok |-> FALSE, word |-> NA, lab |-> it.lab]}
          \cup UNION {ItemNodes(it.kids[k], offs[k], d + 1) : k \in 1..Len(it.kids)}
\* expected token stream of the bracket writer
RECURSIVE BrWrite(_, _, _, _, _, _)
BrWrite(T, x, o, gfsep, Word(_), top) ==
  IF x.tok THEN <<LP, DecoLabel(T, x, o, gfsep), Word(x), RP>>
  ELSE LET ks == KidsSeq(T, x) IN
       <<LP>> \o (IF top /\ "brackets_emptyroot" \in o THEN <<>> ELSE <<DecoLabel(T, x, o, gfsep)>>)
       \o FlattenSeq([k \in 1..Len(ks) |-> BrWrite(T, ks[k], o, gfsep, Word, FALSE)]) \o <<RP>>

\* parenthesis replacement: tab = sequence of <<candidate, name>> (char seqs), applied in order
RECURSIVE SubstAll(_, _, _)
SubstAll(s, c, r) ==
  IF Len(s) < Len(c) \/ Len(c) = 0 THEN s
  ELSE IF SubSeq(s, 1, Len(c)) = c THEN r \o SubstAll(SubSeq(s, Len(c) + 1, Len(s)), c, r)
  ELSE <<s[1]>> \o SubstAll(Tail(s), c, r)
ReplParens(s, tab) == IF s = NoneC THEN s ELSE FoldLeft(LAMBDA acc, e : SubstAll(acc, e[1], e[2]), s, tab)

-----------------------------------------------------------------------------
(* TIGER-XML.  record = [ok, sents]; sent = [id, root, terms, nts]         *)
(* term = [id, word, lemma, pos, morph], nt = [id, cat, edges],            *)
(* edge = [label, idref]; ids are character sequences                      *)
TigerIds(s) == {s.terms[i].id : i \in 1..Len(s.terms)} \cup {s.nts[i].id : i \in 1..Len(s.nts)}
TigerEdges(s) == UNION {{<<s.nts[i].id, s.nts[i].edges[k].idref, s.nts[i].edges[k].label>> :
                           k \in 1..Len(s.nts[i].edges)} : i \in 1..Len(s.nts)}
TigerWF(s) ==
  LET ids == TigerIds(s)  E == TigerEdges(s) IN
  /\ Cardinality(ids) = Len(s.terms) + Len(s.nts)                         \* ids unique
  /\ \A e \in E : e[2] \in ids                                            \* references resolve
  /\ \A i \in ids : Cardinality({e \in E : e[2] = i}) <= 1                 \* at most one parent
  /\ Cardinality({i \in ids : ~\E e \in E : e[2] = i}) = 1                 \* one root
DecodeTiger(s) ==
  LET ids == TigerIds(s)  E == TigerEdges(s)
      tix(i) == CHOOSE k \in 1..Len(s.terms) : s.terms[k].id = i
      nix(i) == CHOOSE k \in 1..Len(s.nts) : s.nts[k].id = i
      isT(i) == \E k \in 1..Len(s.terms) : s.terms[k].id = i
      isTok == [i \in ids |-> isT(i)]
      pos == [i \in ids |-> IF isT(i) THEN tix(i) ELSE 0]
      par == [i \in ids |-> IF \E e \in E : e[2] = i THEN (CHOOSE e \in E : e[2] = i)[1] ELSE <<>>]
      inl(i) == IF \E e \in E : e[2] = i THEN (CHOOSE e \in E : e[2] = i)[3] ELSE NA
      attr == [i \in ids |->
                 IF isT(i) THEN PN({}, 0, TRUE, s.terms[tix(i)].word, s.terms[tix(i)].pos,
                                   s.terms[tix(i)].lemma, s.terms[tix(i)].morph, inl(i))
                 ELSE PN({}, 0, FALSE, NA, s.nts[nix(i)].cat, NA, NA, inl(i))]
  IN IF ChainOK(ids, par, <<>>) THEN TreeFrom(ids, par, isTok, pos, attr, attr[CHOOSE i \in ids : TRUE], FALSE, <<>>)
     ELSE [n |-> 0, nodes |-> {}]
CarryTiger(T) ==
  {IF x.tok THEN PN(x.y, x.d, TRUE, x.a.word, x.a.lab, Dflt(x.a.lemma, Dash2), Dflt(x.a.morph, Dash2), Dflt(x.a.edge, Dash2))
   ELSE PN(x.y, x.d, FALSE, NA, x.a.lab, NA, NA, IF x.d = 0 THEN NA ELSE Dflt(x.a.edge, Dash2)) : x \in T.nodes}
\* a TIGER-XML file as a treebank provides it: lemma and morph are optional attributes (absent = NoneC)
CarryTigerIn(T) ==
  {IF x.tok THEN PN(x.y, x.d, TRUE, x.a.word, x.a.lab, x.a.lemma, x.a.morph, Dflt(x.a.edge, Dash2))
   ELSE PN(x.y, x.d, FALSE, NA, x.a.lab, NA, NA, IF x.d = 0 THEN NA ELSE Dflt(x.a.edge, Dash2)) : x \in T.nodes}

=============================================================================

------------------------------- MODULE Labels -------------------------------
(***************************************************************************)
(* Treebank labels (trees.parse_label / format_label / get_label).         *)
(* A label is a sequence of one-character strings.  Parse is the           *)
(* right-to-left stripping machine of the code, one operator per step      *)
(* (StripHead, StripCoindex, StripGap, SplitGf, Finish); Format and        *)
(* Decorate are the writers.  Property C20; used by C01 (gf_split), C11,   *)
(* C14, C15.                                                               *)
(***************************************************************************)
EXTENDS Integers, Sequences, FiniteSets, SequencesExt, TLC

CONSTANT Dev        \* set of named deviations of the reference level (DESIGN 2.2)

Digits == {"0", "1", "2", "3", "4", "5", "6", "7", "8", "9"}
AllDigits(s) == Len(s) > 0 /\ \A i \in 1..Len(s) : s[i] \in Digits
Str(s) == FoldLeft(LAMBDA acc, c : acc \o c, "", s)     \* char sequence -> string
RFind(s, c) == LET I == {i \in 1..Len(s) : s[i] = c} IN
               IF I = {} THEN 0 ELSE CHOOSE i \in I : \A j \in I : j <= i
LFind(s, c) == LET I == {i \in 1..Len(s) : s[i] = c} IN
               IF I = {} THEN 0 ELSE CHOOSE i \in I : \A j \in I : i <= j
Suffix(s, i) == SubSeq(s, i, Len(s))          \* s[i..]
Prefix(s, i) == SubSeq(s, 1, i)               \* s[..i]
EndsWith(s, t) == Len(t) <= Len(s) /\ Suffix(s, Len(s) - Len(t) + 1) = t

DefaultEdge  == <<"-", "-">>
DefaultLabel == <<"E", "M", "P", "T", "Y">>
HeadMark == "'"
CoSep  == "-"
GapSep == "="
DefaultGfSep == "-"

(* ---- the parsing machine: state [rest, hm, co, gap, gf, sep] ---- *)
Start(s, sep) == [rest |-> s, hm |-> <<>>, co |-> <<>>, gap |-> <<>>,
                  gf |-> DefaultEdge, sep |-> sep]
StripHead(st) ==
  IF Len(st.rest) > 0 /\ st.rest[Len(st.rest)] = HeadMark
  THEN [st EXCEPT !.hm = <<HeadMark>>, !.rest = Prefix(st.rest, Len(st.rest) - 1)]
  ELSE st
StripIndex(st, sepc, fld) ==
  LET p == RFind(st.rest, sepc) IN
  IF p > 0 /\ AllDigits(Suffix(st.rest, p + 1))
  THEN [[st EXCEPT !.rest = Prefix(st.rest, p - 1)] EXCEPT ![fld] = Suffix(st.rest, p + 1)]
  ELSE st
StripCoindex(st) == StripIndex(st, CoSep, "co")
StripGap(st)     == StripIndex(st, GapSep, "gap")
SplitGf(st) ==
  LET p == LFind(st.rest, st.sep) IN
  IF p > 1 /\ p < Len(st.rest)
  THEN [st EXCEPT !.gf = Suffix(st.rest, p + 1), !.rest = Prefix(st.rest, p - 1)]
  ELSE st
Finish(st) ==
  LET cat == IF Len(st.rest) = 0 THEN DefaultLabel ELSE st.rest IN
  [cat |-> cat, gf |-> st.gf, sep |-> st.sep, co |-> st.co, gap |-> st.gap, hm |-> st.hm,
   trace |-> (Len(cat) > 0 /\ cat[1] = "*" /\ cat[Len(cat)] = "*")]

\* deviation gf_separator_ignored: the requested separator is never used
EffSep(sep) == IF "gf_separator_ignored" \in Dev THEN DefaultGfSep ELSE sep
Parse(s, sep) == Finish(SplitGf(StripGap(StripCoindex(StripHead(Start(s, EffSep(sep)))))))

Format(p, alwaysLabel, alwaysGf) ==
  (IF p.cat # DefaultLabel \/ alwaysLabel THEN p.cat ELSE <<>>) \o
  (IF p.gf # DefaultEdge \/ alwaysGf THEN <<p.sep>> \o p.gf ELSE <<>>) \o
  (IF Len(p.gap) > 0 THEN <<GapSep>> \o p.gap ELSE <<>>) \o
  (IF Len(p.co) > 0 THEN <<CoSep>> \o p.co ELSE <<>>) \o
  (IF Len(p.hm) > 0 THEN <<HeadMark>> ELSE <<>>)

\* the label without co-index (binarization labels, C14)
NoCoindex(s) == Format([Parse(s, DefaultGfSep) EXCEPT !.co = <<>>], FALSE, FALSE)
\* bare category (head rules, C15)
Category(s) == Parse(s, DefaultGfSep).cat

(* ---- C20 clauses over a parse result p (record as above) of string s ---- *)
\* out : [aL \in BOOLEAN, aG \in BOOLEAN] -> formatted string
C20roundtrip(s, p, out) ==
  \E aL \in (IF p.cat = DefaultLabel THEN BOOLEAN ELSE {FALSE}) :
  \E aG \in (IF p.gf = DefaultEdge THEN BOOLEAN ELSE {FALSE}) : out[aL][aG] = s
\* the format writer is the documented concatenation of the parts
C20format(p, out) ==
  \A aL, aG \in BOOLEAN : out[aL][aG] = Format(p, aL, aG)
C20partsHead(s, p) == (p.hm = <<HeadMark>>) <=> (Len(s) > 0 /\ s[Len(s)] = HeadMark)
C20partsIndex(s, p) ==
  LET s1 == IF Len(p.hm) > 0 THEN Prefix(s, Len(s) - 1) ELSE s
      pc == RFind(s1, CoSep)
      hasCo == pc > 0 /\ AllDigits(Suffix(s1, pc + 1))
      s2 == IF hasCo THEN Prefix(s1, pc - 1) ELSE s1
      pg == RFind(s2, GapSep)
      hasGap == pg > 0 /\ AllDigits(Suffix(s2, pg + 1))
  IN /\ p.co = (IF hasCo THEN Suffix(s1, pc + 1) ELSE <<>>)
     /\ p.gap = (IF hasGap THEN Suffix(s2, pg + 1) ELSE <<>>)
C20trace(p) == p.trace <=> (Len(p.cat) > 0 /\ p.cat[1] = "*" /\ p.cat[Len(p.cat)] = "*")
\* emptying one component removes exactly that component:
\*   del : component name -> formatted string after emptying it
Piece(p, c) ==
  CASE c = "cat" -> IF p.cat # DefaultLabel THEN p.cat ELSE <<>>
    [] c = "gf"  -> IF p.gf # DefaultEdge THEN <<p.sep>> \o p.gf ELSE <<>>
    [] c = "gap" -> IF Len(p.gap) > 0 THEN <<GapSep>> \o p.gap ELSE <<>>
    [] c = "co"  -> IF Len(p.co) > 0 THEN <<CoSep>> \o p.co ELSE <<>>
    [] c = "hm"  -> IF Len(p.hm) > 0 THEN <<HeadMark>> ELSE <<>>
Comps == <<"cat", "gf", "gap", "co", "hm">>
Without(p, c) == FoldLeft(LAMBDA acc, k : IF k = c THEN acc ELSE acc \o Piece(p, k), <<>>, Comps)
C20delete(p, c, ans) == ans = Without(p, c)
\* a non-default separator is the one used for splitting
C20separator(s, sep, p) ==
  /\ p.sep = sep
  /\ p = Finish(SplitGf(StripGap(StripCoindex(StripHead(Start(s, sep))))))

(* ---- decoration (get_label) ---- *)
\* nd = [lab, edge (char seqs), head, split \in {"T","F","~"}, bn, inner \in BOOLEAN]
\* o  = set of option names; gfsep = separator char, "~" for the empty separator
SepChars(gfsep) == IF gfsep = "~" THEN <<>> ELSE <<gfsep>>
StartsWithDash(e) == Len(e) > 0 /\ e[1] = "-"
Decorate(nd, o, gfsep, bnchars) ==
  nd.lab \o
  (IF "gf" \in o /\ ~StartsWithDash(nd.edge) /\ (nd.inner \/ "gf_terminals" \in o)
   THEN SepChars(gfsep) \o nd.edge ELSE <<>>) \o
  (IF "mark_heads_marking" \in o /\ nd.head = "T" THEN <<HeadMark>> ELSE <<>>) \o
  (IF "boyd_split_marking" \in o /\ nd.split = "T" THEN <<"*">> ELSE <<>>) \o
  (IF "boyd_split_numbering" \in o /\ nd.split = "T" THEN bnchars ELSE <<>>)
=============================================================================

----------------------------- MODULE TreeModel -----------------------------
(***************************************************************************)
(* Treebank trees of wmaier/treetools, at two levels.                      *)
(*                                                                         *)
(*  (1) RAW GRAPH  G : what the harness dumps after every public call: the *)
(*      pointer graph reachable from the returned node, node identity =    *)
(*      a per-case stable index.  Well-formedness (C01/C04 "well formed")  *)
(*      is a set of named clauses over G.                                  *)
(*  (2) ABSTRACT TREE T : an identity-free, set-based value                *)
(*        [n |-> number of tokens, nodes |-> set of node records]          *)
(*      node record = [y |-> yield (set of token positions),               *)
(*                     d |-> number of proper ancestors,                   *)
(*                     tok |-> BOOLEAN, a |-> attribute record]            *)
(*      In a well-formed tree (y, d, tok) identifies a node; two trees are *)
(*      isomorphic iff their abstract values are equal.                    *)
(*                                                                         *)
(* Everything the properties talk about (dominance, ordered children,      *)
(* blocks, gap degree, lca, levels, numbering) is defined here once, on T. *)
(***************************************************************************)
EXTENDS Integers, Sequences, FiniteSets, FiniteSetsExt, SequencesExt, TLC

-----------------------------------------------------------------------------
(* generic helpers *)
SeqToSet(s) == {s[i] : i \in 1..Len(s)}
SetMin(S) == CHOOSE x \in S : \A z \in S : x <= z
SetMax(S) == CHOOSE x \in S : \A z \in S : x >= z
SortedSeq(S, key(_)) == SetToSortSeq(S, LAMBDA u, v : key(u) < key(v))

NoAttr == [lab |-> "~", word |-> "~", lemma |-> "~", morph |-> "~", edge |-> "~",
           head |-> "~", split |-> "~", hb |-> "~", bn |-> 0, id |-> 0]

-----------------------------------------------------------------------------
(* (1) raw graph                                                            *)
(* G = [ret, root, sid, nodes |-> << [live, par, kids, num, lab, word,      *)
(*       lemma, morph, edge, head, split, hb, bn] ... >>]                   *)
(* cm = "T": string fields are character sequences (None = <<"~~">>).      *)
(* par: 0 = None.  live = "T" iff reachable downwards from the top node     *)
(* above `ret`.  num: 0 = key absent.                                       *)

GIds(G)        == 1..Len(G.nodes)
GLive(G)       == {i \in GIds(G) : G.nodes[i].live = "T"}
GKids(G, i)    == G.nodes[i].kids
GKidSet(G, i)  == SeqToSet(G.nodes[i].kids)
GLeaf(G, i)    == Len(G.nodes[i].kids) = 0
GLeaves(G)     == {i \in GLive(G) : GLeaf(G, i)}
GInner(G)      == {i \in GLive(G) : ~GLeaf(G, i)}

RECURSIVE GUp(_, _, _)
GUp(G, i, fuel) == \* path i, parent(i), ... (bounded: cycle safe)
  IF fuel = 0 \/ G.nodes[i].par <= 0 \/ G.nodes[i].par > Len(G.nodes) THEN <<i>>
  ELSE <<i>> \o GUp(G, G.nodes[i].par, fuel - 1)
GTop(G, i)   == LET p == GUp(G, i, Len(G.nodes) + 1) IN p[Len(p)]
GDepth(G, i) == Len(GUp(G, i, Len(G.nodes) + 1)) - 1

RECURSIVE GYield(_, _, _)
GYield(G, i, fuel) ==
  IF GLeaf(G, i) THEN {G.nodes[i].num}
  ELSE IF fuel = 0 THEN {}
  ELSE UNION {GYield(G, GKids(G, i)[j], fuel - 1) : j \in 1..Len(GKids(G, i))}
GY(G, i) == GYield(G, i, Len(G.nodes) + 1)

(* well-formedness clauses *)
WFroot(G) ==
  /\ G.root \in GLive(G)
  /\ G.nodes[G.root].par = 0
  /\ \A i \in GLive(G) : (G.nodes[i].par = 0) => i = G.root
  /\ \A i \in GLive(G) : GTop(G, i) = G.root
WFlinks(G) ==
  /\ \A i \in GLive(G) : \A k \in GKidSet(G, i) : G.nodes[k].par = i
  /\ \A i \in GLive(G) : G.nodes[i].par > 0 =>
        /\ G.nodes[i].par \in GLive(G)
        /\ i \in GKidSet(G, G.nodes[i].par)
WFnodup(G) ==
  /\ \A i \in GLive(G) : Cardinality(GKidSet(G, i)) = Len(GKids(G, i))
  /\ \A i, j \in GLive(G) : i # j => GKidSet(G, i) \cap GKidSet(G, j) = {}
WFnochildless(G) ==
  \A i \in GLeaves(G) : G.nodes[i].num > 0 /\
     (IF G.cm = "T" THEN G.nodes[i].word # <<"~~">> ELSE G.nodes[i].word # "~")
WFtokens(G) ==
  LET L == GLeaves(G) IN
  /\ \A i, j \in L : i # j => G.nodes[i].num # G.nodes[j].num
  /\ {G.nodes[i].num : i \in L} = 1..Cardinality(L)
WFretroot(G) == G.ret = G.root

WFClauses(G) ==
  (IF WFroot(G) THEN {} ELSE {"wf.root"}) \cup
  (IF WFlinks(G) THEN {} ELSE {"wf.links"}) \cup
  (IF WFnodup(G) THEN {} ELSE {"wf.nodup"}) \cup
  (IF WFnochildless(G) THEN {} ELSE {"wf.nochildless"}) \cup
  (IF WFtokens(G) THEN {} ELSE {"wf.tokens"})
WF(G) == WFClauses(G) = {}

(* abstraction (meaningful when WF(G)) *)
GAttr(G, i) == [lab |-> G.nodes[i].lab, word |-> G.nodes[i].word,
                lemma |-> G.nodes[i].lemma, morph |-> G.nodes[i].morph,
                edge |-> G.nodes[i].edge, head |-> G.nodes[i].head,
                split |-> G.nodes[i].split, hb |-> G.nodes[i].hb,
                bn |-> G.nodes[i].bn, id |-> i]
AbsNode(G, i) == [y |-> GY(G, i), d |-> GDepth(G, i), tok |-> GLeaf(G, i),
                  a |-> GAttr(G, i)]
Abs(G) == [n |-> Cardinality(GLeaves(G)),
           nodes |-> {AbsNode(G, i) : i \in GLive(G)}]

-----------------------------------------------------------------------------
(* (2) abstract tree                                                        *)

TNodes(T) == {x \in T.nodes : x.tok}
CNodes(T) == {x \in T.nodes : ~x.tok}
Tok(T, p) == CHOOSE x \in T.nodes : x.tok /\ x.y = {p}
Root(T) == CHOOSE x \in T.nodes : x.d = 0

\* a properly dominates b
Dom(a, b) == /\ ~a.tok /\ a # b /\ b.y \subseteq a.y
             /\ (b.tok \/ (a.y # b.y) \/ (a.d < b.d))
Ancs(T, x)   == {a \in T.nodes : Dom(a, x)}
Below(T, x)  == {b \in T.nodes : Dom(x, b)}
HasParent(T, x) == Ancs(T, x) # {}
Parent(T, x) == CHOOSE a \in Ancs(T, x) : \A z \in Ancs(T, x) : z.d <= a.d
Kids(T, x)   == {c \in Below(T, x) : ~\E z \in Below(T, x) : Dom(z, c)}
LeftTok(x)   == SetMin(x.y)
RightTok(x)  == SetMax(x.y)
KidsSeq(T, x) == SortedSeq(Kids(T, x), LeftTok)
TokSeq(T, x)  == SortedSeq({t \in TNodes(T) : t.y \subseteq x.y}, LeftTok)

\* recompute depths after a set-level edit; ties among equal yields are
\* broken by the old depth (unary chains keep their order)
Norm(S) == {[c EXCEPT !.d = Cardinality({a \in S : Dom(a, c)})] : c \in S}

\* canonical well-formedness of an abstract tree (laminar, complete tokens)
Laminar(T) == \A a, b \in T.nodes :
                 a.y \subseteq b.y \/ b.y \subseteq a.y \/ a.y \cap b.y = {}
TreeOK(T) ==
  /\ \A x \in T.nodes : x.y # {} /\ x.y \subseteq 1..T.n
  /\ {x.y : x \in TNodes(T)} = {{p} : p \in 1..T.n}
  /\ Cardinality(TNodes(T)) = T.n
  /\ Laminar(T)
  /\ Cardinality({x \in T.nodes : x.d = 0}) = 1
  \* (the root is a constituent, except in the one-node tree a collapsed one-token sentence becomes)
  /\ (~Root(T).tok \/ Cardinality(T.nodes) = 1) /\ Root(T).y = 1..T.n
  /\ \A x \in T.nodes : x.d = Cardinality(Ancs(T, x))
  /\ \A a, b \in T.nodes : (a.y = b.y /\ a.d = b.d /\ a.tok = b.tok) => a = b

\* blocks / gap degree (C16)
RunFrom(Y, s) == {q \in Y : q >= s /\ \A r \in s..q : r \in Y}
Runs(Y)       == {RunFrom(Y, s) : s \in {p \in Y : (p - 1) \notin Y}}
RunsSeq(Y)    == SortedSeq(Runs(Y), SetMin)
GapDegNode(x) == IF x.tok THEN 0 ELSE Cardinality(Runs(x.y)) - 1
GapDeg(T)     == SetMax({GapDegNode(x) : x \in T.nodes})
RunOf(Y, p)   == CHOOSE R \in Runs(Y) : p \in R

\* lowest common dominator (C19, C12)
CommonAncs(T, a, b) == {z \in T.nodes : (z = a \/ Dom(z, a)) /\ (z = b \/ Dom(z, b))}
Lowest(S) == CHOOSE z \in S : \A w \in S : w.d <= z.d

\* level = longest downward path to a token (C19)
RECURSIVE Level(_, _)
Level(T, x) == IF x.tok THEN 0
               ELSE 1 + SetMax({Level(T, c) : c \in Kids(T, x)})

\* traversal orders (C19)
RECURSIVE Pre(_, _)
Pre(T, x) == LET ks == KidsSeq(T, x) IN
             <<x>> \o FlattenSeq([i \in 1..Len(ks) |-> Pre(T, ks[i])])
RECURSIVE Post(_, _)
Post(T, x) == LET ks == KidsSeq(T, x) IN
              FlattenSeq([i \in 1..Len(ks) |-> Post(T, ks[i])]) \o <<x>>

\* node identity: a.id is the stable raw-graph index (0 = created by the model)
Ids(T) == {x.a.id : x \in T.nodes} \ {0}
ById(T, i) == CHOOSE x \in T.nodes : x.a.id = i
PId(T, x) == IF HasParent(T, x) THEN Parent(T, x).a.id ELSE -1
\* forget the identity of nodes created after `maxid`
StripNew(T, maxid) == [T EXCEPT !.nodes = {IF x.a.id > maxid THEN [x EXCEPT !.a.id = 0] ELSE x : x \in @}]
StripIds(T) == StripNew(T, 0)

\* structure only / attribute projections
Shape(T) == {[y |-> x.y, d |-> x.d, tok |-> x.tok] : x \in T.nodes}
Proj(T, f(_)) == {[y |-> x.y, d |-> x.d, tok |-> x.tok, v |-> f(x.a)] : x \in T.nodes}
LabelBag(T) == [l \in {x.a.lab : x \in CNodes(T)} |->
                   Cardinality({x \in CNodes(T) : x.a.lab = l})]
Sentence(T) == [p \in 1..T.n |-> <<Tok(T, p).a.word, Tok(T, p).a.lab>>]

=============================================================================

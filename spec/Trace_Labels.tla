----------------------------- MODULE Trace_Labels -----------------------------
(* Trace validation for C20: recorded results of parse_label / format_label / *)
(* get_label on the real code against the clauses of Labels.                  *)
EXTENDS Labels, Json, IOUtils
Doc   == JsonDeserialize(IOEnv.TRACE_FILE)
Cases == Doc.cases
VARIABLES tid, l, errs, done
Case == Cases[tid]
Fail(c, ok) == IF ok THEN {} ELSE {c}

\* parse result as logged: [cat, gf, sep, co, gap, hm : char seqs, trace : "T"/"F"]
PR(e) == [cat |-> e.cat, gf |-> e.gf, sep |-> e.sep[1], co |-> e.co, gap |-> e.gap, hm |-> e.hm,
          trace |-> (e.trace = "T")]
Out(e) == [aL \in BOOLEAN |-> [aG \in BOOLEAN |->
             IF aL THEN (IF aG THEN e.tt ELSE e.tf) ELSE (IF aG THEN e.ft ELSE e.ff)]]

EventErrs(s, e) ==
  IF e.res # "ok" THEN {"C20." \o e.a \o ".raised"}
  ELSE CASE e.a = "parse" ->
         Fail("C20.parts.head", C20partsHead(s, PR(e))) \cup
         Fail("C20.parts.index", C20partsIndex(s, PR(e))) \cup
         Fail("C20.is_trace", C20trace(PR(e))) \cup
         Fail("C20.parts.nonempty", Len(e.cat) > 0 /\ Len(e.gf) > 0)
    [] e.a = "format" ->
         Fail("C20.roundtrip", C20roundtrip(s, PR(e.p), Out(e))) \cup
         Fail("C20.format", C20format(PR(e.p), Out(e)))
    [] e.a = "parse_again" ->
         Fail("C20.parse_stable", PR(e) = PR(e.first)) \cup
         Fail("C20.parts.index", C20partsIndex(s, PR(e))) \cup Fail("C20.parts.head", C20partsHead(s, PR(e)))
    [] e.a = "format_sep" ->
         Fail("C20.roundtrip_separator", C20roundtrip(s, PR(e.p), Out(e))) \cup
         Fail("C20.format_separator", C20format(PR(e.p), Out(e)))
    [] e.a = "delete" ->
         Fail("C20.delete_component", C20delete(PR(e.p), e.comp, e.out))
    [] e.a = "parse_sep" ->
         Fail("C20.separator_honoured", C20separator(s, e.reqsep[1], PR(e)))
    [] e.a = "get_label" ->
         Fail("C20.decorate",
              e.out = Decorate([lab |-> e.nd.lab, edge |-> e.nd.edge, head |-> e.nd.head,
                                split |-> e.nd.split, inner |-> (e.nd.inner = "T")],
                               {e.opts[i] : i \in 1..Len(e.opts)}, e.gfsep[1], e.bnchars))
    [] OTHER -> {"trace.unknown_event"}

Fidelity(s, e) == IF e.res = "ok" /\ e.a = "parse" /\ PR(e) # Parse(s, DefaultGfSep)
                  THEN {"parse_ref"} ELSE {}

TInit == /\ tid \in 1..Len(Cases) /\ l = 0 /\ done = FALSE /\ errs = {}
TStep == /\ ~done /\ l < Len(Case.events)
         /\ l' = l + 1
         /\ errs' = errs \cup {<<c, l + 1>> : c \in EventErrs(Case.s, Case.events[l + 1])}
         /\ UNCHANGED <<tid, done>>
TDone == /\ ~done /\ l = Len(Case.events) /\ done' = TRUE
         /\ PrintT("VERDICT " \o ToJson(
              [id |-> Case.id, steps |-> l, failed |-> errs,
               tags |-> {Case.tag},
               fidelity |-> UNION {Fidelity(Case.s, Case.events[k]) : k \in 1..Len(Case.events)},
               nontrivial |-> \E k \in 1..Len(Case.events) :
                   LET e == Case.events[k] IN e.res = "ok" /\
                   \/ (e.a = "parse" /\ (Len(e.co) > 0 \/ Len(e.gap) > 0 \/ Len(e.hm) > 0 \/ e.gf # DefaultEdge))
                   \/ (e.a = "get_label" /\ e.out # e.nd.lab)]))
         /\ UNCHANGED <<tid, l, errs>>
TNext == TStep \/ TDone
=============================================================================

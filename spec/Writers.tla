------------------------------- MODULE Writers -------------------------------
(***************************************************************************)
(* The five tree writers (trees/treeoutput.py): for a tree T and an option *)
(* set, the clauses every output must satisfy (property C02) and reference *)
(* encoders used by the bounded model to check that encoding and decoding  *)
(* relations of Formats are consistent.                                    *)
(***************************************************************************)
EXTENDS Formats, Nav

F(name, ok) == IF ok THEN {} ELSE {name}
HasNone(T, flds) == \E x \in T.nodes : x.d > 0 /\
   \/ ("lemma" \in flds /\ x.a.lemma = NoneC) \/ ("morph" \in flds /\ x.a.morph = NoneC)
   \/ ("edge" \in flds /\ x.a.edge = NoneC)
ParenFree(tok) == \A i \in 1..Len(tok) : tok[i] \notin {"(", ")"}
WordsOf(T) == [p \in 1..T.n |-> Tok(T, p).a.word]
TagsOf(T)  == [p \in 1..T.n |-> Tok(T, p).a.lab]

\* ---- export ----
C02export(T, sid, o, gfsep, rec) ==
  LET four == "export_four" \in o  L == rec.lines IN
  F("C02.export.wellformed", ExportWF(L, four)) \cup
  (IF ExportWF(L, four) THEN
     F("C02.sid", ExportSid(L) = sid) \cup
     F("C02.export.order", ExportOrder(L)) \cup
     F("C02.export.numbering", ExportNumbering(L, four)) \cup
     F("C02.decodes", ProjFile(DecodeExport(L, four)) = CarryExport(T, o, gfsep, four))
   ELSE {})

\* ---- brackets / discobrackets ----
ExpBrackets(T, o, gfsep, tab) ==
  BrWrite([T EXCEPT !.nodes = {IF x.tok THEN [x EXCEPT !.a.lab = ReplParens(@, tab), !.a.edge = ReplParens(@, tab)]
                                ELSE x : x \in @}],
          Root(T), o, gfsep, LAMBDA x : ReplParens(x.a.word, tab), TRUE)
C02brackets(T, o, gfsep, tab, rec) ==
  F("C02.decodes", rec.toks = ExpBrackets(T, o, gfsep, tab)) \cup
  F("C02.brackets.group", ParseGroup(rec.toks, 1, 4 * Len(rec.toks) + 4, TRUE, FALSE).ok
                          /\ ParseGroup(rec.toks, 1, 4 * Len(rec.toks) + 4, TRUE, FALSE).next = Len(rec.toks) + 1) \cup
  F("C02.brackets.parens", \A i \in 1..Len(rec.toks) : rec.toks[i] \in {LP, RP} \/ ParenFree(rec.toks[i])) \cup
  F("C02.brackets.one_line", rec.nlines = 1)
ExpDisco(T, o, gfsep, tab) ==
  BrWrite([T EXCEPT !.nodes = {IF x.tok THEN [x EXCEPT !.a.lab = ReplParens(@, tab), !.a.edge = ReplParens(@, tab)]
                                ELSE x : x \in @}],
          Root(T), o, gfsep, LAMBDA x : NumChars(SetMin(x.y)), TRUE)
C02disco(T, o, gfsep, tab, rec) ==
  F("C02.decodes", rec.toks = ExpDisco(T, o, gfsep, tab)) \cup
  F("C02.disco.sentence", rec.sent = WordsOf(T)) \cup
  F("C02.brackets.one_line", rec.nlines = 1)

\* ---- terminals ----
C02terminals(T, o, rec) ==
  LET one == "terminals_one" \in o  wp == "terminals_pos" \in o
      item(p) == IF wp THEN <<Tok(T, p).a.word, Tok(T, p).a.lab>> ELSE <<Tok(T, p).a.word>>
  IN F("C02.terminals.exact",
       IF one THEN rec.lines = [p \in 1..T.n |-> item(p)] \o << <<>> >>
       ELSE rec.lines = << FlattenSeq([p \in 1..T.n |-> IF wp THEN << item(p) >> ELSE item(p)]) >>)

\* ---- TIGER-XML ----
C02tiger(T, sid, rec) ==
  F("C02.xml.wellformed", rec.ok = "T" /\ Len(rec.sents) = 1) \cup
  (IF rec.ok = "T" /\ Len(rec.sents) = 1 THEN
     F("C02.sid", rec.sents[1].id = NumChars(sid)) \cup
     F("C02.xml.links", TigerWF(rec.sents[1])) \cup
     (IF TigerWF(rec.sents[1]) THEN F("C02.decodes", ProjFile(DecodeTiger(rec.sents[1])) = CarryTiger(T)) ELSE {})
   ELSE {})

\* one write event: failed clauses
WriteClauses(T, sid, e, tab) ==
  LET o == {e.opts[i] : i \in 1..Len(e.opts)}  gfsep == e.gfsep[1]
      disco == GapDeg(T) > 0
      noneflds == IF e.fmt = "export" THEN {"morph", "edge"} \cup (IF "export_four" \in o THEN {"lemma"} ELSE {})
                  ELSE IF e.fmt = "tigerxml" THEN {"lemma", "morph", "edge"}
                  ELSE IF "gf" \in o THEN {"edge"} ELSE {}
  IN
  IF e.fmt = "brackets" /\ disco THEN
     IF "brackets_skipdisco" \in o
     THEN F("C02.brackets.refuses_exactly_disco", e.res = "ok" /\ e.rec.toks = <<>>)
     ELSE F("C02.brackets.refuses_exactly_disco", e.res = "exc")
  ELSE IF e.res # "ok" THEN
     {IF e.fmt = "brackets" /\ ~HasNone(T, noneflds) THEN "C02.brackets.refuses_exactly_disco"
      ELSE IF HasNone(T, noneflds) THEN "C02.defaults_not_failure" ELSE "C02.raised"}
  ELSE CASE e.fmt = "export" -> C02export(T, sid, o, gfsep, e.rec)
         [] e.fmt = "brackets" -> C02brackets(T, o, gfsep, tab, e.rec)
         [] e.fmt = "discobrackets" -> C02disco(T, o, gfsep, tab, e.rec)
         [] e.fmt = "terminals" -> C02terminals(T, o, e.rec)
         [] e.fmt = "tigerxml" -> C02tiger(T, sid, e.rec)
         [] OTHER -> {"trace.unknown_format"}

\* ---- reference encoders (model level) ----
RefExportLines(T, sid, o, gfsep, four) ==
  LET num == RefNumbering(T)
      nf == ExportNF(four)
      pnum(x) == num[Parent(T, x)]
      line(x, w, wn) ==
        LET lab == DecoLabel(T, x, o, gfsep)
            flds == IF four THEN <<w, Dflt(x.a.lemma, Dash2), lab, Dflt(x.a.morph, Dash2), Dflt(x.a.edge, Dash2), NumChars(pnum(x))>>
                    ELSE <<w, lab, Dflt(x.a.morph, Dash2), Dflt(x.a.edge, Dash2), NumChars(pnum(x))>>
        IN [f |-> flds, n |-> [k \in 1..nf |-> IF k = nf THEN pnum(x) ELSE -1], wnum |-> wn]
      toks == [p \in 1..T.n |-> line(Tok(T, p), Tok(T, p).a.word, -1)]
      cs == SetToSortSeq(CNodes(T) \ {Root(T)}, LAMBDA u, v : num[u] < num[v])
      cl == [k \in 1..Len(cs) |-> line(cs[k], <<"#">> \o NumChars(num[cs[k]]), num[cs[k]])]
  IN << [f |-> <<BosC, NumChars(sid)>>, n |-> <<-1, sid>>, wnum |-> -1] >> \o toks \o cl \o
     << [f |-> <<EosC, NumChars(sid)>>, n |-> <<-1, sid>>, wnum |-> -1] >>
\* (the reference encoder writes defaults for absent optional fields)
RefTiger(T, sid) ==
  LET num == RefNumbering(T)
      idc(x) == NumChars(IF x.tok THEN SetMin(x.y) ELSE num[x])
      post == Post(T, Root(T))
      ntsq == SelectSeq(post, LAMBDA x : ~x.tok)
  IN [id |-> NumChars(sid), root |-> NumChars(0),
      terms |-> [p \in 1..T.n |-> LET x == Tok(T, p) IN
                   [id |-> idc(x), word |-> x.a.word, lemma |-> Dflt(x.a.lemma, Dash2), pos |-> x.a.lab,
                    morph |-> Dflt(x.a.morph, Dash2)]],
      nts |-> [k \in 1..Len(ntsq) |->
                 LET x == ntsq[k]  ks == KidsSeq(T, x) IN
                 [id |-> idc(x), cat |-> x.a.lab,
                  edges |-> [j \in 1..Len(ks) |-> [label |-> Dflt(ks[j].a.edge, Dash2), idref |-> idc(ks[j])]]]]]
=============================================================================

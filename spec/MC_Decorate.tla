----------------------------- MODULE MC_Decorate -----------------------------
(* Bounded model for the decoration part of C20 / C02: every combination of *)
(* node attributes and output options; one state each (no transitions).    *)
EXTENDS Labels, Json
VARIABLE c
Opts == {"gf", "gf_terminals", "mark_heads_marking", "boyd_split_marking", "boyd_split_numbering"}
Labs == {<<"N", "P">>, <<"N", "P", "-", "S", "B", "J", "'">>}
Edges == {<<"H", "D">>, <<"-", "-">>, <<"-", "X">>}
Init == c \in [lab : Labs, edge : Edges, head : {"T", "F"}, split : {"T", "F"}, bn : {1, 2},
               inner : BOOLEAN, o : SUBSET Opts, gfsep : {"-", "#", "0", "~"}]   \* ("0": what `gf_separator:0` becomes on the command line)
Next == UNCHANGED c
D == Decorate(c, c.o, c.gfsep, <<ToString(c.bn)>>)
InvDecor ==
  /\ SubSeq(D, 1, Len(c.lab)) = c.lab
  /\ ("gf" \notin c.o => ~\E i \in Len(c.lab) + 1..Len(D) : D[i] = c.gfsep /\ c.gfsep = "#")
  /\ (c.o = {} => D = c.lab)
  /\ Len(D) = Len(c.lab)
       + (IF "gf" \in c.o /\ c.edge[1] # "-" /\ (c.inner \/ "gf_terminals" \in c.o) THEN Len(SepChars(c.gfsep)) + Len(c.edge) ELSE 0)
       + (IF "mark_heads_marking" \in c.o /\ c.head = "T" THEN 1 ELSE 0)
       + (IF "boyd_split_marking" \in c.o /\ c.split = "T" THEN 1 ELSE 0)
       + (IF "boyd_split_numbering" \in c.o /\ c.split = "T" THEN 1 ELSE 0)
Emit == PrintT("CASE " \o ToJson(c))
=============================================================================

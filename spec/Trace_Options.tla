---------------------------- MODULE Trace_Options ----------------------------
(* recorded results of misc.options_dict against Options.tla (part of C03)    *)
EXTENDS Options, Json, IOUtils
Doc   == JsonDeserialize(IOEnv.TRACE_FILE)
Cases == Doc.cases
VARIABLES tid, done
Case == Cases[tid]
TInit == tid \in 1..Len(Cases) /\ done = FALSE
TDone == /\ ~done /\ done' = TRUE
         /\ PrintT("VERDICT " \o ToJson(
              [id |-> Case.id, steps |-> 1,
               failed |-> IF Case.res = "ok" /\ OptionsOK(Case.opts, Case.out) THEN {} ELSE {<<"C03.options_dict", 1>>},
               tags |-> {}, nontrivial |-> (Len(Case.opts) > 1)]))
         /\ UNCHANGED tid
TNext == TDone
=============================================================================

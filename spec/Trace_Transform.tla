--------------------------- MODULE Trace_Transform ---------------------------
(***************************************************************************)
(* Trace validation of the transformation family (C04 C05 C11 C12 C13 C14  *)
(* C15): each recorded public call is one step.  The step's pre-state is   *)
(* the implementation's own previous post-state (the rest of the trace is  *)
(* always checked), every clause of TransformProps and the raw-graph       *)
(* well-formedness clauses are evaluated, and the reference operator of    *)
(* the call is compared for the fidelity figure.                           *)
(***************************************************************************)
EXTENDS TransformProps, Json, IOUtils

Doc   == JsonDeserialize(IOEnv.TRACE_FILE)
Cases == Doc.cases
Rules == Doc.config.rules       \* head-rule tables exported from the code: [negra |-> ..., ptb |-> ...]

VARIABLES tid, l, cur, mem, errs, fid, done,
          pok    \* the previous call was examined (its prerequisites held) and returned a tree
Case == Cases[tid]

OpOf(e) == [name |-> e.a, relc |-> e.args.relc, bare |-> (e.args.bare = "T"), pos |-> e.args.pos,
            preset |-> e.args.preset, keep |-> e.args.keep,
            flags |-> {e.args.flags[i] : i \in 1..Len(e.args.flags)}, rows |-> e.args.rows,
            fop |-> e.args.fop, fval |-> e.args.fval,
            rules |-> IF e.args.preset = "negra" THEN Rules.negra
                      ELSE IF e.args.preset = "ptb" THEN Rules.ptb ELSE <<>>]

RefApply(o, T) ==
  CASE o.name = "root_attach" -> RootAttach(T)
    [] o.name = "negra_mark_heads" -> NegraMarkHeads(T)
    [] o.name = "mark_heads_by_rules" -> RuleMarkHeads(T, o.rules)
    [] o.name = "boyd_split" -> BoydSplit(T)
    [] o.name = "raising" -> Raising(T)
    [] o.name = "add_topnode" -> AddTopnode(T)
    [] o.name = "punctuation_verylow" -> PunctVerylow(T)
    [] o.name = "punctuation_root" -> PunctRoot(T)
    [] o.name = "punctuation_symetrify" -> PunctSym(T, o.relc)
    [] o.name = "binarize" -> Binarize(T, o.bare)
    [] o.name = "collapse_unary_chains" -> Collapse(T)
    [] o.name = "uncollapse_unary_chains" -> Uncollapse(T)
    [] o.name = "punctuation_delete" -> PunctDelete(T)
    [] o.name = "delete_terminal" -> DeleteToks(T, {o.pos})
    [] o.name = "ptb_delete_traces" -> PtbDeleteTraces(T, o, Case.wc)
    [] o.name = "insert_terminals" -> InsertTerminals(T, o.rows)
    [] o.name = "substitute_terminals" -> SubstituteTerminals(T, o.rows)
    [] OTHER -> T

\* documented prerequisites (the properties quantify over prerequisite-respecting calls only)
PrereqOK(o, A) ==
  CASE o.name = "boyd_split" -> HeadsMarked(A) /\ OneHead(A)
    [] o.name = "raising" -> (\A x \in A.nodes : x.a.split \in {"T", "F"}) /\ (\A x \in TNodes(A) : x.a.split = "F")
    [] OTHER -> TRUE
\* A call whose prerequisite is not met says nothing about the properties - unless the call before it is the
\* operation documented to establish that prerequisite (head marking before boyd_split, boyd_split before
\* raising) and was itself applied as documented: then the sequence is prerequisite-respecting and the broken
\* prerequisite is a defect of the pipeline.
Establishes(prev, o) ==
  \/ o.name = "boyd_split" /\ prev.a \in {"negra_mark_heads", "mark_heads_by_rules"} /\ prev.res = "ok"
  \/ o.name = "raising" /\ prev.a = "boyd_split" /\ prev.res = "ok"
RetRootOps == Structural \cup {"punctuation_delete", "ptb_delete_traces", "insert_terminals",
                               "substitute_terminals"}
\* expected exceptions (the property says "rejected")
MustRaise(o, A) ==
  \/ o.name = "binarize" /\ \E x \in CNodes(A) : Cardinality(Kids(A, x)) > 2 /\ \A k \in Kids(A, x) : k.a.head = "~"
  \/ o.name = "mark_heads_by_rules" /\ o.preset \notin {"negra", "ptb"}    \* unknown preset / no rule source
  \* a terminal file that names the same position of a sentence twice is rejected ("double index")
  \/ o.name \in {"insert_terminals", "substitute_terminals"}
     /\ \E i, j \in 1..Len(o.rows) : i # j /\ o.rows[i].idx = o.rows[j].idx

StepErrs(e, A, m2) ==
  LET o == OpOf(e) IN
  IF ~PrereqOK(o, A) THEN {}
  ELSE IF e.res = "exc" THEN
     IF MustRaise(o, A) THEN {}
     ELSE {(IF o.name \in Structural THEN "C04" ELSE "C11") \o ".raised." \o e.a}
  ELSE IF o.name = "filter_by_length" THEN
     F("C11.filter", (e.res = "none") <=> FilterDrops(A, o)) \cup
     (IF e.res = "ok" THEN F("C11.filter_unchanged", e.post.nodes = cur.nodes /\ WFretroot(e.post)) ELSE {})
  ELSE IF MustRaise(o, A) THEN {IF o.name = "binarize" THEN "C14.bin.rejects_headless"
                                ELSE IF o.name = "mark_heads_by_rules" THEN "C15.rules.rejects"
                                ELSE "C11.rejects_double_index"}
  ELSE LET wf == WFClauses(e.post) IN
    {(IF o.name \in Structural THEN "C04." ELSE "C11.") \o c : c \in wf} \cup
    \* an ill-formed result also breaks the property that describes this operation
    (IF wf = {} THEN {}
     ELSE IF o.name = "root_attach" THEN {"C12.wellformed"}
     ELSE IF o.name \in {"punctuation_verylow", "punctuation_root", "punctuation_symetrify"} THEN {"C13.wellformed"}
     ELSE IF o.name \in {"boyd_split", "raising"} THEN {"C05.wellformed"}
     ELSE IF o.name \in {"binarize", "collapse_unary_chains", "uncollapse_unary_chains"} THEN {"C14.wellformed"}
     ELSE IF o.name \in {"negra_mark_heads", "mark_heads_by_rules"} THEN {"C15.wellformed"} ELSE {}) \cup
    (IF o.name \in RetRootOps /\ ~WFretroot(e.post) /\ wf = {}
     THEN {IF o.name = "uncollapse_unary_chains" THEN "C14.uncol.ret_is_root"
           ELSE IF o.name \in Structural THEN "C04.ret_is_root" ELSE "C11.ret_is_root"} ELSE {}) \cup
    (IF wf = {} THEN Clauses(o, A, Abs(e.post), m2, Case.wc) ELSE {})

Fidelity(e, A) ==
  IF e.res = "ok" /\ WF(e.post) /\ PrereqOK(OpOf(e), A) /\ StripIds(Abs(e.post)) # StripIds(RefApply(OpOf(e), A))
  THEN {e.a} ELSE {}

TInit == /\ tid \in 1..Len(Cases) /\ l = 0 /\ done = FALSE
         /\ cur = Cases[tid].init /\ mem = Mem0 /\ fid = {} /\ pok = FALSE
         /\ errs = {<<"C04." \o c, 0>> : c \in WFClauses(Cases[tid].init)} \cup
                   (IF InventoryOK THEN {} ELSE {<<"C13.inventory", 0>>, <<"C11.inventory", 0>>})

\* a step is examinable iff the current state is a well-formed tree
TStep == /\ ~done /\ l < Len(Case.events) /\ WF(cur)
         /\ LET e == Case.events[l + 1]
                A == Abs(cur)
                m2 == IF PrereqOK(OpOf(e), A) THEN MemNext(OpOf(e), A, mem) ELSE Mem0
                broken == ~PrereqOK(OpOf(e), A) /\ l >= 1 /\ pok /\ Establishes(Case.events[l], OpOf(e))
            IN /\ errs' = errs \cup {<<c, l + 1>> : c \in StepErrs(e, A, m2)} \cup
                           (IF broken THEN {<<"C04.pipeline.prerequisite_established", l + 1>>,
                                            <<"C05.pipeline.prerequisite_established", l + 1>>} ELSE {})
               /\ pok' = (PrereqOK(OpOf(e), A) /\ e.res = "ok")
               /\ fid' = fid \cup {<<f, l + 1>> : f \in Fidelity(e, A)}
               /\ mem' = m2
               /\ cur' = IF e.res = "ok" THEN e.post ELSE cur
         /\ l' = l + 1
         /\ UNCHANGED <<tid, done>>

Tags ==
  LET A == IF WF(Case.init) THEN Abs(Case.init) ELSE NoTree IN
  (IF A.n > 0 /\ ~Continuous(A) THEN {"discontinuous"} ELSE {}) \cup
  (IF A.n > 0 /\ Len(SplitPlus(Root(A).a.lab)) >= 3 THEN {"root_chain_len_ge_3"} ELSE {}) \cup
  (IF A.n > 0 /\ PunctPos(A) # {} THEN {"has_punct"} ELSE {}) \cup
  (IF A.n > 0 /\ \E c \in CNodes(A) : Cardinality(Kids(A, c)) >= 2 /\ OnlyPunctKids(A, c)
   THEN {"punct_only_constituent"} ELSE {})

TDone == /\ ~done /\ (l = Len(Case.events) \/ ~WF(cur)) /\ done' = TRUE
         /\ PrintT("VERDICT " \o ToJson(
              [id |-> Case.id, steps |-> l, failed |-> errs, fidelity |-> fid, tags |-> Tags,
               nontrivial |-> (\E k \in 1..l : Case.events[k].res = "ok" /\
                                 Case.events[k].post.nodes # Case.init.nodes),
               unexamined |-> Len(Case.events) - l]))
         /\ UNCHANGED <<tid, l, cur, mem, errs, fid, pok>>
TNext == TStep \/ TDone
=============================================================================

------------------------- MODULE MC_BracketAutomaton -------------------------
(***************************************************************************)
(* Bounded model of the bracket reader automaton: EVERY lexer-token class  *)
(* sequence up to length L (with the lexer's adjacency constraint: never   *)
(* two WS or two TOKEN in a row) is a path; the input history is part of   *)
(* the state.  Invariants: automaton bookkeeping, and equivalence with the *)
(* declarative group grammar (same trees, error exactly for an ill-formed  *)
(* or truncated group).  Every input is emitted as a CASE.                 *)
(***************************************************************************)
EXTENDS BracketReader, BracketAbs, Json
CONSTANTS L, Opts, Sep, Texts
VARIABLES inp, cfg
Init == inp = <<>> /\ cfg = Rd0(1)
LastC == IF inp = <<>> THEN "~" ELSE inp[Len(inp)].c
Feed(t) == /\ Len(inp) < L
           /\ ~(t.c = "WS" /\ LastC = "WS") /\ ~(t.c = "TOKEN" /\ LastC = "TOKEN")
           /\ inp' = Append(inp, t) /\ cfg' = RdStep(cfg, t, Opts, Sep)
Next == \/ Feed([c |-> "LRB", x |-> <<"(">>]) \/ Feed([c |-> "RRB", x |-> <<")">>])
        \/ Feed([c |-> "WS", x |-> <<" ">>])
        \/ \E x \in Texts : Feed([c |-> "TOKEN", x |-> x])

InvBook == ~cfg.err =>
  /\ (cfg.state = 0 <=> cfg.queue = <<>>)
  /\ (cfg.state = 0 => cfg.termCnt = 1)
  /\ cfg.cnt = 1 + Len(cfg.out)
  /\ \A i \in 1..Len(cfg.out) : cfg.out[i].sid = i
InvDecl ==
  LET a == RdEof(cfg)  d == Decl(inp, Opts, Sep) IN
  /\ a.err = d.err
  /\ [i \in 1..Len(a.out) |-> Bare(a.out[i].item)] = [i \in 1..Len(d.out) |-> Bare(d.out[i])]
\* stepwise = fold
InvFold == cfg = FoldLeft(LAMBDA c, t : RdStep(c, t, Opts, Sep), Rd0(1), inp)
\* the queue-length abstraction commutes with RdStep: the abstract automaton of BracketAbs (whose invariant
\* Apalache proves inductive, for inputs of every length) run on the input history gives the projected state
AbsOf(c) == [state |-> c.state, level |-> Len(c.queue), termCnt |-> c.termCnt, cnt |-> c.cnt,
             nout |-> Len(c.out), err |-> c.err]
InvAbs == LET abs == FoldLeft(LAMBDA x, t : AStep(x, t.c, "brackets_emptypos" \in Opts), A0(1), inp) IN
          /\ AbsOf(cfg) = abs
          /\ AInv(abs, 1)
Emit == PrintT("CASE " \o ToJson([toks |-> [i \in 1..Len(inp) |-> <<inp[i].c, inp[i].x>>]]))
=============================================================================

----------------------------- MODULE MC_Options -----------------------------
(* all option lists of up to MaxOpts options of up to L characters over a small *)
(* alphabet: the dict has one entry per key, the last one wins                  *)
EXTENDS Options, Json
CONSTANTS Alphabet, L, MaxOpts
VARIABLES opts, cur
Init == opts = <<>> /\ cur = <<>>
AddChar(c) == Len(cur) < L /\ cur' = Append(cur, c) /\ UNCHANGED opts
Close == cur # <<>> /\ Len(opts) < MaxOpts /\ opts' = Append(opts, cur) /\ cur' = <<>>
Next == (\E c \in Alphabet : AddChar(c)) \/ Close
Inv == cur = <<>> =>
   LET D == OptionsDict(opts) IN
   /\ \A i \in 1..Len(opts) : KeyOf(opts[i]) \in DOMAIN D
   /\ \A k \in DOMAIN D : D[k].t \in {"true", "int", "str"}
   /\ (Len(opts) > 0 => D[KeyOf(opts[Len(opts)])] = ValOf(opts[Len(opts)]))
Emit == (cur = <<>> /\ opts # <<>>) => PrintT("CASE " \o ToJson([opts |-> opts]))
=============================================================================

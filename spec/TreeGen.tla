------------------------------ MODULE TreeGen ------------------------------
(***************************************************************************)
(* Construction of abstract trees through steps that mirror the tree API   *)
(* (Tree(), children.append, parent = ...): every well-formed tree is a    *)
(* reachable state.  Used by every bounded model whose quantifier ranges   *)
(* over "all well-formed trees".                                           *)
(***************************************************************************)
EXTENDS TreeModel

ConsAttr(lab, edge) == [NoAttr EXCEPT !.lab = lab, !.edge = edge]
TokAttr(word, tag, edge) == [NoAttr EXCEPT !.lab = tag, !.word = word, !.edge = edge,
                                           !.lemma = "--", !.morph = "--"]

\* the flat tree: a root over n tokens; tk[p] is the attribute record of token p
Flat(n, rootattr, tk) ==
  [n |-> n,
   nodes |-> {[y |-> 1..n, d |-> 0, tok |-> FALSE, a |-> rootattr]} \cup
             {[y |-> {p}, d |-> 1, tok |-> TRUE, a |-> tk[p]] : p \in 1..n}]

ChainLen(T, Y) == Cardinality({c \in CNodes(T) : c.y = Y})
CanAdd(T, Y, maxcons, maxchain) ==
  /\ Y # {} /\ Y \subseteq 1..T.n
  /\ Cardinality(CNodes(T)) < maxcons
  /\ \A c \in CNodes(T) : Y \subseteq c.y \/ c.y \subseteq Y \/ Y \cap c.y = {}
  /\ ChainLen(T, Y) < maxchain
\* new constituent with yield Y; if a constituent with this yield exists the
\* new one goes to the bottom of the unary chain
AddCons(T, Y, attr) ==
  [T EXCEPT !.nodes = Norm(@ \cup {[y |-> Y, d |-> 1000, tok |-> FALSE, a |-> attr]})]

\* all nonempty subsets of 1..n as candidates
Cands(n) == (SUBSET (1..n)) \ {{}}

=============================================================================

---------------------------- MODULE MC_Transform ----------------------------
(***************************************************************************)
(* Bounded model of the transformation family.  Phase "build": every tree  *)
(* within the bounds is constructed (TreeGen).  Phase "ops": every         *)
(* prerequisite-respecting sequence of at most MaxOps transformations from *)
(* OpSet is applied with the reference operators.  Invariants: the         *)
(* abstract tree stays well formed and every property clause holds of      *)
(* every step.  Every (tree0, hist) is emitted as a CASE for replay.       *)
(***************************************************************************)
EXTENDS TransformProps, TreeGen, Json

CONSTANTS N, NMin, MaxCons, MaxChain, MaxOps,
          TokKinds,       \* set of [word, tag, edge]
          CLabels, CEdges,
          OpSet,          \* set of op records [name, relc, bare, rules, pos]
          Programs,       \* either {} (free sequences) or a set of op-record sequences
          WC              \* <<word atom, characters>> pairs for trace words (ptb_delete_traces)
VARIABLES tree0, tree, pre, hist, phase, mem
vars == <<tree0, tree, pre, hist, phase, mem>>

Init == /\ \E n \in NMin..N : \E tk \in [1..n -> TokKinds] :
             tree = Flat(n, ConsAttr(<<"V", "R", "O", "O", "T">>, "--"),
                         [p \in 1..n |-> TokAttr(IF tk[p].word = "w" THEN "w" \o ToString(p) ELSE tk[p].word,
                                                  tk[p].tag, tk[p].edge)])
        /\ tree0 = NoTree /\ pre = NoTree /\ hist = <<>> /\ phase = "build" /\ mem = Mem0

Build == /\ phase = "build"
         /\ \E Y \in Cands(tree.n) : \E lab \in CLabels : \E e \in CEdges :
               /\ CanAdd(tree, Y, MaxCons, MaxChain)
               /\ tree' = AddCons(tree, Y, ConsAttr(lab, e))
         /\ UNCHANGED <<tree0, pre, hist, phase, mem>>

\* canonical identities: tokens 1..n, constituents 100 + rank in (leftmost token, depth) order
SealIds(T) ==
  LET cs == SetToSortSeq(CNodes(T), LAMBDA u, v :
               \/ LeftTok(u) < LeftTok(v)
               \/ (LeftTok(u) = LeftTok(v) /\ u.d < v.d)
               \/ (LeftTok(u) = LeftTok(v) /\ u.d = v.d /\ Cardinality(u.y) > Cardinality(v.y)))
  IN [T EXCEPT !.nodes =
        {IF x.tok THEN [x EXCEPT !.a.id = SetMin(x.y)]
         ELSE [x EXCEPT !.a.id = 100 + (CHOOSE i \in 1..Len(cs) : cs[i] = x)] : x \in @}]
Seal == /\ phase = "build" /\ phase' = "ops"
        /\ tree' = SealIds(tree) /\ tree0' = SealIds(tree)
        /\ UNCHANGED <<pre, hist, mem>>

\* nodes created by an operation get fresh identities (as new objects do in the code)
FreshIds(T, base) ==
  LET zs == SetToSortSeq({x \in T.nodes : x.a.id = 0}, LAMBDA u, v :
               \/ LeftTok(u) < LeftTok(v)
               \/ (LeftTok(u) = LeftTok(v) /\ u.d < v.d)
               \/ (LeftTok(u) = LeftTok(v) /\ u.d = v.d /\ Cardinality(u.y) > Cardinality(v.y)))
  IN [T EXCEPT !.nodes =
        {IF x.a.id # 0 THEN x
         ELSE [x EXCEPT !.a.id = base + (CHOOSE i \in 1..Len(zs) : zs[i] = x)] : x \in @}]

Did(n) == \E i \in 1..Len(hist) : hist[i].name = n
Dropped == Len(hist) > 0 /\ hist[Len(hist)].name = "filter_by_length" /\ FilterDrops(tree, hist[Len(hist)])
Enabled(o, T) ==
  ~Dropped /\
  CASE o.name = "boyd_split" -> HeadsMarked(T) /\ OneHead(T)
    \* (collapsing between boyd_split and raising merges block nodes into tokens: then raising would
    \*  remove tokens - found by TLC -simulate; such sequences do not respect raising's prerequisite)
    [] o.name = "raising" -> /\ \A x \in T.nodes : x.a.split \in {"T", "F"}
                             /\ \A x \in TNodes(T) : x.a.split = "F"
    [] o.name \in {"punctuation_verylow", "punctuation_symetrify"} -> Did("root_attach")
    [] o.name = "binarize" -> BinarizeEnabled(T)
    \* a one-token sentence collapses into a single node that is root and token at once ("may not make
    \* sense", transform.py): it takes part in the collapse/uncollapse programs, not in free sequences
    [] o.name = "collapse_unary_chains" -> T.n > 1 \/ Programs # {}
    [] o.name = "uncollapse_unary_chains" -> Len(hist) > 0 /\ hist[Len(hist)].name = "collapse_unary_chains"
    [] o.name = "delete_terminal" -> o.pos <= T.n /\ T.n > 1
    [] o.name = "ptb_delete_traces" -> TracePos(T) \ KeptTraces(T, o, WC) # 1..T.n
    [] OTHER -> TRUE
Apply(o, T) ==
  CASE o.name = "root_attach" -> RootAttach(T)
    [] o.name = "negra_mark_heads" -> NegraMarkHeads(T)
    [] o.name = "mark_heads_by_rules" -> RuleMarkHeads(T, o.rules)
    [] o.name = "boyd_split" -> BoydSplit(T)
    [] o.name = "raising" -> Raising(T)
    [] o.name = "add_topnode" -> AddTopnode(T)
    [] o.name = "punctuation_verylow" -> PunctVerylow(T)
    [] o.name = "punctuation_root" -> PunctRoot(T)
    [] o.name = "punctuation_symetrify" -> PunctSym(T, o.relc)
    [] o.name = "binarize" -> Binarize(T, o.bare)
    [] o.name = "collapse_unary_chains" -> Collapse(T)
    [] o.name = "uncollapse_unary_chains" -> Uncollapse(T)
    [] o.name = "punctuation_delete" -> PunctDelete(T)
    [] o.name = "delete_terminal" -> DeleteToks(T, {o.pos})
    [] o.name = "ptb_delete_traces" -> PtbDeleteTraces(T, o, WC)
    [] o.name = "insert_terminals" -> InsertTerminals(T, o.rows)
    [] o.name = "substitute_terminals" -> SubstituteTerminals(T, o.rows)
    [] o.name = "filter_by_length" -> T

AllowedNext(o) ==
  IF Programs = {} THEN Len(hist) < MaxOps
  ELSE \E pr \in Programs : Len(pr) > Len(hist) /\ SubSeq(pr, 1, Len(hist)) = hist /\ pr[Len(hist) + 1] = o
Op == /\ phase = "ops"
      /\ \E o \in OpSet :
           /\ AllowedNext(o) /\ Enabled(o, tree)
           /\ pre' = tree /\ tree' = FreshIds(Apply(o, tree), 1000 * (Len(hist) + 1))
           /\ hist' = Append(hist, o)
           /\ mem' = MemNext(o, tree, mem)
      /\ UNCHANGED <<tree0, phase>>
Next == Build \/ Seal \/ Op

\* ---- invariants ----
InvTreeOK == TreeOK(tree)
LastOp == hist[Len(hist)]
InvClauses == (phase = "ops" /\ Len(hist) > 0 /\ TreeOK(tree)) =>
                 Clauses(LastOp, pre, tree, mem, WC) = {}
InvRetRoot == (phase = "ops" /\ Len(hist) > 0 /\ LastOp.name = "uncollapse_unary_chains")
                 => UncollapseRetIsRoot(pre)
OpLog(o) == [name |-> o.name, relc |-> o.relc, bare |-> o.bare, pos |-> o.pos,
             preset |-> o.preset, keep |-> o.keep, flags |-> o.flags, rows |-> o.rows,
             fop |-> o.fop, fval |-> o.fval]
Emit == (phase = "ops" /\ Len(hist) > 0) =>
           PrintT("CASE " \o ToJson([tree |-> tree0,
                                     ops |-> [i \in 1..Len(hist) |-> OpLog(hist[i])]]))
=============================================================================

----------------------------- MODULE MC_Session -----------------------------
(* Bounded model of one `treetools transform` run: every argument record    *)
(* over small corpora (file or 2-file directory) x destination format x     *)
(* split specification x length filter; C03ok and C17ok on every finished   *)
(* run; every argument record is emitted as a CASE for the CLI replay.      *)
EXTENDS Session, Json
CONSTANTS DestFmts, Specs, Filters, SrcSets
Init == \E s \in SrcSets : \E f \in DestFmts : \E sp \in Specs : \E fl \in Filters :
           SInit([src |-> s, destfmt |-> f, split |-> sp, filt |-> fl])
Next == SNext
InvC03 == C03ok
InvC17 == C17ok
InvDone == pc = "done" => status \in {"ok", "error"}
Emit == pc = "start" => PrintT("CASE " \o ToJson(args))
=============================================================================

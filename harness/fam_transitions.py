"""C10: run the real transition oracles; the emitted list is the trace."""
import contextlib
import io
import os
import random
import tempfile

from . import treeio


def split_name(name):
    """lexical split of a transition name into (type, side, label)"""
    if name in ('SHIFT', 'GAP', 'REDUCE'):
        return [name, '~', '~']
    if name.startswith('UNARY-'):
        return ['UNARY', '~', name[6:]]
    if name.startswith('PJ-'):
        return ['PJ', '~', name[3:]]
    for pre in ('BINARY', 'R'):
        if name.startswith(pre + '-'):
            rest = name[len(pre) + 1:]
            side, _, lab = rest.partition('-')
            return [pre, side, lab]
    return ['?' + name[:20], '~', '~']


def record_case(cid, T, sys_, mods, seed, origin='tlc', with_file=True):
    mods = mods or treeio.repo_modules()
    tr = mods['transitions']
    to = mods['transitionoutput']
    rnd = random.Random(seed)
    atoms = treeio.Atoms(seed, exotic=False)
    root = treeio.build(T, mods, atoms, rnd)
    root.data['sid'] = 1
    dmp = treeio.Dumper(atoms)
    G = dmp.dump(root)
    case = {'id': cid, 'origin': origin, 'sys': sys_, 'tree': G, 'seq': [], 'raw': [], 'sent': [],
            'res': 'ok', 'file': {'used': 'F', 'pos': 'F', 'words': [], 'trans': [], 'nlines': 0}}
    err = io.StringIO()
    try:
        with contextlib.redirect_stderr(err), contextlib.redirect_stdout(err):
            sent, seq = getattr(tr, sys_)(root)
        raw = [str(t) for t in seq]
        case['raw'] = raw
        case['seq'] = [split_name(x) for x in raw]
        case['sent'] = [[atoms.abst(w), atoms.abst(t)] for (w, t) in sent]
        if with_file:
            pos = rnd.random() < 0.5
            d = tempfile.mkdtemp(prefix='vf_tr_')
            fn = os.path.join(d, 'out.trans')
            to.plain([(sent, seq)], fn, 'utf-8', **({'pos': True} if pos else {}))
            lines = open(fn, encoding='utf-8').read().split('\n')
            if lines and lines[-1] == '':
                lines = lines[:-1]
            left, _, right = (lines[0] if lines else '').partition(' ||| ')
            case['file'] = {'used': 'T', 'pos': 'T' if pos else 'F',
                            'words': [atoms.abst(w) for w in left.split(' ')] if left else [],
                            'trans': right.split(' ') if right else [], 'nlines': len(lines)}
            os.unlink(fn)
            os.rmdir(d)
    except Exception as ex:
        case['res'] = 'exc'
        case['exc'] = '%s: %s' % (type(ex).__name__, str(ex)[:80])
    return case


def record_cli_case(cid, T, sys_, seed, origin='cli'):
    """the `treetools transitions` command: tree file -> negra_mark_heads, binarize -> oracle -> file.
    The tree recorded is the one the API pipeline produces from the same file; the file line comes from the CLI."""
    import shutil
    import subprocess
    from . import core, fam_io
    mods = treeio.repo_modules()
    rnd = random.Random(seed)
    tmp = tempfile.mkdtemp(prefix='vf_trc_')
    case = {'id': cid, 'origin': origin, 'sys': sys_, 'topnode': seed % 3 == 0, 'tree': None, 'seq': [], 'raw': [], 'sent': [],
            'res': 'ok', 'file': {'used': 'F', 'pos': 'F', 'words': [], 'trans': [], 'nlines': 0}}
    try:
        src = os.path.join(tmp, 'in.export')
        # some words are not ASCII; source and destination encodings are chosen independently
        import copy
        T = copy.deepcopy(T)
        exo = [u'\u00dcberma\u00df', u'na\u00efve', u'\u00e9', u'10\u00a0000', u'\u65e5\u672c']
        for x in T['nodes']:
            if x['tok'] and rnd.random() < 0.4:
                x['a']['word'] = rnd.choice(exo)
        allw = ''.join(x['a']['word'] for x in T['nodes'] if x['tok'])
        encs = ['utf-8', 'utf-8', 'utf-16']
        try:
            allw.encode('latin-1')
            encs += ['latin-1', 'latin-1']
        except UnicodeEncodeError:
            pass
        src_enc, dest_enc = rnd.choice(encs), rnd.choice(encs)
        case['encs'] = '%s->%s' % (src_enc, dest_enc)
        with open(src, 'w', encoding=src_enc) as f:
            f.write(fam_io.render_export(T, 7, False, rnd))
        tree = next(mods['treeinput'].export(src, src_enc, quiet=True))
        tf = mods['transform']
        top = seed % 3 == 0
        with contextlib.redirect_stderr(io.StringIO()), contextlib.redirect_stdout(io.StringIO()):
            tree = tf.binarize(tf.negra_mark_heads(tree))
            if top:
                tree = tf.add_topnode(tree)      # returns the NEW root: the caller has to go on with it
            at = treeio.Atoms(seed)
            case['tree'] = treeio.Dumper(at).dump(tree)
            sent, seq = getattr(mods['transitions'], sys_)(tree)
        case['raw'] = [str(t) for t in seq]
        case['seq'] = [split_name(x) for x in case['raw']]
        case['sent'] = [[at.abst(w), t] for (w, t) in sent]
        pos = rnd.random() < 0.5
        args = [core.VENV_PY, os.path.join(core.REPO, 'treetools'), 'transitions', src, os.path.join(tmp, 'out.tr'), sys_,
                '--transform', 'negra_mark_heads', 'binarize'] + (['add_topnode'] if top else []) \
            + (['--dest-opts', 'pos'] if pos else []) + ['--src-enc', src_enc, '--dest-enc', dest_enc]
        p = subprocess.run(args, cwd=tmp, stdout=subprocess.PIPE, stderr=subprocess.PIPE)
        lines = []
        if os.path.exists(os.path.join(tmp, 'out.tr')):
            try:
                lines = open(os.path.join(tmp, 'out.tr'), encoding=dest_enc).read().split('\n')
            except UnicodeError:
                lines = ['<undecodable> ||| <undecodable>']
            if lines and lines[-1] == '':
                lines = lines[:-1]
        left, _, right = (lines[0] if lines else '').partition(' ||| ')
        case['file'] = {'used': 'T', 'pos': 'T' if pos else 'F', 'words': [at.abst(w_) for w_ in left.split(' ')] if left else [],
                        'trans': right.split(' ') if right else [], 'nlines': len(lines) if p.returncode == 0 else -1}
    except Exception as ex:
        case['res'] = 'exc'
        case['exc'] = '%s: %s' % (type(ex).__name__, str(ex)[:80])
        if case['tree'] is None:
            case['tree'] = treeio.Dumper(treeio.Atoms(seed)).dump(treeio.build(T, mods, treeio.Atoms(seed)))
    finally:
        shutil.rmtree(tmp, ignore_errors=True)
    return case

"""Mechanical glue between abstract trees (TLA+ values as JSON) and the real
`trees.Tree` pointer graphs of the repository under test: building a tree through
the tree API, dumping the raw pointer graph, atom <-> concrete string tables.
Nothing here interprets a property."""
import random
import sys

from . import core

if core.REPO not in sys.path:
    sys.path.insert(0, core.REPO)


_MODS = None


def repo_modules():
    global _MODS
    if _MODS is not None:
        return _MODS
    import importlib
    mods = {}
    for m in ['trees', 'transform', 'treeinput', 'treeoutput', 'treeanalysis', 'grammar',
              'grammaranalysis', 'grammarconst', 'grammarinput', 'grammaroutput',
              'transitions', 'transitionoutput', 'misc', 'transformconst']:
        mods[m] = importlib.import_module('trees.' + m)
    _MODS = mods
    return mods


# --------------------------------------------------------------------------
EXOTIC_WORDS = [u'Übermaß', u'日本', u'a&b', u'<t>', u'"q"', u"it's",
                u'naïve', u'x' * 7, u'y' * 8, u'z' * 15, u'v' * 16, u'#5000', u'%s',
                u'é', u'Ä',
                # space characters that are not ASCII whitespace: characters of a word in every format
                u'10\u00a0000', u'a\u3000b']


class Atoms(object):
    """Per-case bijection between the ASCII atoms TLC sees and the concrete strings
    fed to / produced by the code."""

    def __init__(self, seed=None, exotic=False, protect=()):
        self.a2c = {}
        self.c2a = {}
        self.rnd = random.Random(seed)
        self.exotic = exotic
        self.pool = list(EXOTIC_WORDS)
        self.rnd.shuffle(self.pool)
        self.protect = set(protect)

    def bind(self, atom, conc):
        self.a2c[atom] = conc
        self.c2a[conc] = atom

    def conc(self, atom, kind='word'):
        """concrete string for an atom of the case skeleton"""
        if atom == '~':
            return None
        if atom in self.a2c:
            return self.a2c[atom]
        c = atom
        if self.exotic and kind == 'word' and atom not in self.protect and self.pool \
                and self.rnd.random() < 0.5:
            c = self.pool.pop()
        self.bind(atom, c)
        return c

    def abst(self, s):
        """atom for a concrete value found in the implementation's state/output"""
        if s is None:
            return '~'
        if not isinstance(s, str):
            return '?%s:%s' % (type(s).__name__, ascii(s)[:20])
        if s in self.c2a:
            return self.c2a[s]
        if s == '~' or s == '':
            return '?empty' if s == '' else '?tilde'
        if all(32 <= ord(ch) < 127 for ch in s) and '\\' not in s:
            return s
        return '?' + s.encode('utf-8').hex()


def unchars(cs):
    """inverse of chars(): character sequence -> string (None for the None marker)"""
    if cs == ['~~'] or cs == '~':
        return None
    if isinstance(cs, str):
        return cs
    return ''.join(chr(int(c[1:], 16)) if len(c) == 5 and c[0] == 'U' else c for c in cs)


def chars(s):
    """character sequence of an (ASCII) label, for character-level specs"""
    if s is None:
        return ['~~']
    return [ch if 32 < ord(ch) < 127 and ch not in '\\"' else 'U%04X' % ord(ch) for ch in s]


# --------------------------------------------------------------------------
def dominates(a, b):
    ya, yb = set(a['y']), set(b['y'])
    return (not a['tok']) and a is not b and yb <= ya and \
        (b['tok'] or ya != yb or a['d'] < b['d'])


def build(T, mods, atoms, rnd=None, data_hook=None, all_chars=False):
    """Build the real tree for abstract tree T directly through the tree API
    (Tree(data), children.append, parent = ...). Children lists are stored in a
    shuffled order when rnd is given. Returns the root Tree."""
    trees = mods['trees']
    nodes = sorted(T['nodes'], key=lambda x: (x['d'], min(x['y']), x['tok']))
    objs = []
    for x in nodes:
        a = x['a']
        data = trees.make_node_data()
        if all_chars:
            a = dict(a)
            for fld in ('lab', 'edge', 'lemma', 'morph', 'word'):
                a[fld] = unchars(a[fld])
            atoms = IDENT
        data['label'] = atoms.conc(a['lab'], 'label')
        data['edge'] = atoms.conc(a['edge'], 'label')
        data['lemma'] = atoms.conc(a['lemma'], 'word')
        data['morph'] = atoms.conc(a['morph'], 'label')
        if x['tok']:
            data['word'] = atoms.conc(a['word'], 'word')
            data['num'] = x['y'][0]
        else:
            data['word'] = atoms.conc(a['word'], 'word')
        for key, fld in (('head', 'head'), ('split', 'split'), ('hb', 'head_block')):
            if a.get(key, '~') != '~':
                data[fld] = (a[key] == 'T')
        if a.get('bn', 0):
            data['block_number'] = a['bn']
        if data_hook:
            data_hook(x, data)
        objs.append(trees.Tree(data))
    root = None
    for x, o in zip(nodes, objs):
        anc = [(y['d'], k) for k, y in enumerate(nodes) if dominates(y, x)]
        if not anc:
            root = o
            continue
        _, k = max(anc)
        o.parent = objs[k]
        objs[k].children.append(o)
    if rnd is not None:
        for o in objs:
            rnd.shuffle(o.children)
    return root


class _Ident(object):
    def conc(self, a, kind=None):
        return a

    def abst(self, s):
        return s


IDENT = _Ident()


class Dumper(object):
    """Dumps raw pointer graphs with indices that are stable over one case."""

    def __init__(self, atoms, lab_chars=False, all_chars=False):
        self.atoms = atoms
        self.index = {}
        self.objs = []
        self.lab_chars = lab_chars or all_chars
        self.all_chars = all_chars

    def idx(self, o):
        k = id(o)
        if k not in self.index:
            self.objs.append(o)          # keeps the object alive: id() stays unique
            self.index[k] = len(self.objs)
        return self.index[k]

    def _flag(self, data, key):
        if not isinstance(data, dict) or key not in data:
            return '~'
        v = data[key]
        if v is True:
            return 'T'
        if v is False:
            return 'F'
        return '?'

    def dump(self, ret, also=()):
        """Raw graph reachable from `ret` (and, not live, from the nodes in `also`)."""
        if ret is None or not hasattr(ret, 'children'):
            return {'ret': 0, 'root': 0, 'sid': -1, 'nodes': self._records(set()),
                    'none': 'T', 'cm': 'T' if self.all_chars else 'F'}
        # top above ret (bounded, cycle safe)
        top, seen = ret, set()
        while getattr(top, 'parent', None) is not None and id(top) not in seen:
            seen.add(id(top))
            top = top.parent
        live = set()
        stack = [top]
        while stack:
            o = stack.pop()
            if id(o) in live:
                continue
            live.add(id(o))
            self.idx(o)
            for c in list(o.children):
                if hasattr(c, 'children'):
                    stack.append(c)
        # register everything else we can see (parents of live nodes, old roots)
        extra = [ret] + list(also)
        for o in list(self.objs):
            extra.append(o)
        seen2 = set()
        while extra:
            o = extra.pop()
            if o is None or id(o) in seen2 or not hasattr(o, 'children'):
                continue
            seen2.add(id(o))
            self.idx(o)
            if getattr(o, 'parent', None) is not None:
                extra.append(o.parent)
            for c in o.children:
                extra.append(c)
        sid = top.data.get('sid', -1) if isinstance(top.data, dict) else -1
        if not isinstance(sid, int) or isinstance(sid, bool):
            sid = -2
        return {'ret': self.idx(ret), 'root': self.idx(top), 'sid': sid,
                'nodes': self._records(live), 'none': 'F', 'cm': 'T' if self.all_chars else 'F'}

    def _records(self, live):
        recs = []
        ab = self.atoms.abst
        for o in self.objs:
            d = o.data if isinstance(o.data, dict) else {}
            num = d.get('num', 0)
            if not isinstance(num, int) or isinstance(num, bool):
                num = -1
            bn = d.get('block_number', 0)
            if not isinstance(bn, int) or isinstance(bn, bool):
                bn = -1
            par = o.parent
            rec = {'live': 'T' if id(o) in live else 'F',
                   'par': self.idx(par) if par is not None and hasattr(par, 'children') else 0,
                   'kids': [self.idx(c) for c in o.children if hasattr(c, 'children')],
                   'num': num,
                   'lab': ab(d.get('label')), 'word': ab(d.get('word')),
                   'lemma': ab(d.get('lemma')), 'morph': ab(d.get('morph')),
                   'edge': ab(d.get('edge')),
                   'head': self._flag(d, 'head'), 'split': self._flag(d, 'split'),
                   'hb': self._flag(d, 'head_block'), 'bn': bn}
            if self.lab_chars:
                rec['lab'] = chars(d.get('label'))
            if self.all_chars:
                for k_, f_ in (('word', 'word'), ('lemma', 'lemma'), ('morph', 'morph'), ('edge', 'edge')):
                    v_ = d.get(f_)
                    rec[k_] = chars(v_) if (v_ is None or isinstance(v_, str)) else ['?' + type(v_).__name__]
            recs.append(rec)
        # indices may have grown while building records (parents registered late)
        if len(recs) < len(self.objs):
            return self._records(live)
        return recs


# --------------------------------------------------------------------------
def random_tree(rnd, nmax=8, maxcons=6, labels=('S', 'NP', 'VP'), edges=('--',),
                words=None, tags=('T',), chain=0.3, disc=0.5, tokedges=('--',)):
    """Seeded random abstract tree (same JSON shape as TLC's CASE trees): a random
    laminar family over 1..n with unary chains."""
    n = rnd.randint(1, nmax)
    fam = [frozenset(range(1, n + 1))]
    cons = [(frozenset(range(1, n + 1)), 0)]
    for _ in range(rnd.randint(0, maxcons)):
        if rnd.random() < disc:
            k = rnd.randint(1, n)
            Y = frozenset(rnd.sample(range(1, n + 1), k))
        else:
            a = rnd.randint(1, n)
            b = rnd.randint(a, n)
            Y = frozenset(range(a, b + 1))
        if all(Y <= c or c <= Y or not (Y & c) for c in fam):
            if Y in fam and rnd.random() > chain:
                continue
            fam.append(Y)
    nodes = []
    order = {}
    for Y in fam:
        order[Y] = order.get(Y, 0) + 1
        nodes.append({'y': sorted(Y), 'k': order[Y], 'tok': False,
                      'a': attr(lab=rnd.choice(labels), edge=rnd.choice(edges))})
    nodes[0]['a']['lab'] = 'VROOT'
    nodes[0]['a']['edge'] = '--'
    for p in range(1, n + 1):
        w = words(rnd, p) if words else 'w%d' % p
        nodes.append({'y': [p], 'k': 99, 'tok': True,
                      'a': attr(lab=rnd.choice(tags), word=w, edge=rnd.choice(tokedges),
                                lemma='--', morph='--')})
    # depth = number of proper dominators; ties among equal yields by k
    for x in nodes:
        x['d'] = 0
    for x in nodes:
        x['d'] = sum(1 for a in nodes if _dom_k(a, x))
    for x in nodes:
        del x['k']
    return {'n': n, 'nodes': nodes}


def _dom_k(a, b):
    ya, yb = set(a['y']), set(b['y'])
    return (not a['tok']) and a is not b and yb <= ya and (b['tok'] or ya != yb or a['k'] < b['k'])


def attr(**kw):
    a = {'lab': '~', 'word': '~', 'lemma': '~', 'morph': '~', 'edge': '~',
         'head': '~', 'split': '~', 'hb': '~', 'bn': 0}
    a.update(kw)
    return a

"""./check selftest - demonstrates that the trace specifications are bound to what the code logged
(DESIGN section 11): a recorded trace of the real code is accepted; the same trace with ONE logged field
corrupted is rejected with the clause that speaks about that field; the same trace with one event removed
or with a case missing is not silently accepted.  Not a manifest check (it decides no property); exit 0
when every expectation holds, 2 otherwise."""
import copy
import json
import sys

from . import core, treeio


def _failed(verdicts, cid):
    return sorted({f[0] for f in verdicts[cid]['failed']})


def _expect(name, ok, detail=''):
    print('selftest %-58s %s %s' % (name, 'ok' if ok else 'FAILED', detail))
    return 0 if ok else 1


def run():
    mods = treeio.repo_modules()
    bad = 0
    # ---- split arithmetic (Trace_Split): corrupt one part size ---------------------------------------
    from . import run_split
    with core.Work('st') as w:
        spec = [{'k': 'pct', 'n': 50}, {'k': 'rest', 'n': 0}]
        good = run_split.record_case('ST-good', spec, 11, mods)
        wrong = copy.deepcopy(good)
        wrong['id'] = 'ST-corrupt'
        wrong['parts'] = [good['parts'][0] + 1, good['parts'][1] - 1]      # still sums to 11
        v, _ = core.validate_traces(w, 'Trace_Split', [good, wrong], cfg=run_split.TRACE_CFG)
        bad += _expect('split: recorded result accepted', _failed(v, 'ST-good') == [], str(good['parts']))
        bad += _expect('split: one part moved by one tree -> C17.follows_spec', 'C17.follows_spec' in _failed(v, 'ST-corrupt'),
                       str(_failed(v, 'ST-corrupt')))
    # ---- navigation answers (Trace_Nav): corrupt one sibling answer, one gap degree ----------------------
    from . import fam_nav
    T = {'n': 4, 'nodes': [
        {'y': [1, 2, 3, 4], 'd': 0, 'tok': False, 'a': treeio.attr(lab='VROOT', edge='--')},
        {'y': [1, 3], 'd': 1, 'tok': False, 'a': treeio.attr(lab='X', edge='--')}] +
        [{'y': [p], 'd': 2 if p in (1, 3) else 1, 'tok': True,
          'a': treeio.attr(lab='T', word='w%d' % p, edge='--', lemma='--', morph='--')} for p in (1, 2, 3, 4)]}
    with core.Work('st') as w:
        # (some seeds make the driver change the tree in place and ask again; take one where the answers
        #  are those of the tree above: the discontinuous node X has gap degree 1)
        good = None
        for sd in range(12):
            cand = fam_nav.record_case('SN-good', T, mods, sd)
            if any(e['a'] == 'gap_degree_node' and any(x > 0 for x in e['out']) for e in cand['events']) \
                    and not any(e['a'] == 'mutate' for e in cand['events']):
                good = cand
                break
        if good is None:
            raise core.MachineryError('selftest: no recorded navigation case with a discontinuous node')
        c1 = copy.deepcopy(good)
        c1['id'] = 'SN-gap'
        for e in c1['events']:
            if e['a'] == 'gap_degree_node':
                e['out'] = [0 for _ in e['out']]            # the discontinuous node X claims degree 0
        c2 = copy.deepcopy(good)
        c2['id'] = 'SN-drop'
        c2['events'] = [e for e in c2['events'] if e['a'] != 'children']
        v, _ = core.validate_traces(w, 'Trace_Nav', [good, c1, c2])
        bad += _expect('nav: recorded answers accepted', _failed(v, 'SN-good') == [])
        bad += _expect('nav: gap degree of a discontinuous node zeroed -> C16.node', 'C16.node' in _failed(v, 'SN-gap'),
                       str(_failed(v, 'SN-gap')))
        bad += _expect('nav: event `children` removed -> fewer steps validated',
                       v['SN-drop']['steps'] == v['SN-good']['steps'] - 1)
        # a case that yields no VERDICT line is a machinery failure, never silence
        broken = copy.deepcopy(good)
        broken['id'] = 'SN-broken'
        for e in broken['events']:
            if e['a'] == 'children':
                e['out'] = 'not a list of child lists'
        try:
            vb, _ = core.validate_traces(w, 'Trace_Nav', [broken])
            ok = 'SN-broken' in core.UNDEFINED.get('Trace_Nav', []) or any(f[0].startswith('C19') or f[0].startswith('machinery')
                                                                             for f in vb.get('SN-broken', {}).get('failed', []))
        except core.MachineryError:
            ok = True
        bad += _expect('nav: ill-typed log is reported (clause or machinery error), not accepted', ok)
    # ---- grammar extraction (Trace_Grammar): corrupt one rule count --------------------------------------------
    from . import fam_grammar as fg, run_grammar
    with core.Work('st') as w:
        good = fg.record_treebank_case('SG-good', [T, T], [], mods, 1)
        good['props'] = ['C06', 'C08']
        wrong = copy.deepcopy(good)
        wrong['id'] = 'SG-count'
        wrong['events'][-1]['gram'][0]['cnt'] += 1
        v, _ = core.validate_traces(w, 'Trace_Grammar', [good, wrong], cfg=run_grammar.TRACE_CFG)
        bad += _expect('grammar: recorded grammar accepted', _failed(v, 'SG-good') == [])
        bad += _expect('grammar: one rule count raised by one -> C06.vert / C06.counts',
                       {'C06.vert', 'C06.counts'} & set(_failed(v, 'SG-count')) != set(), str(_failed(v, 'SG-count')))
    print('selftest: %s' % ('all expectations hold' if not bad else '%d expectation(s) FAILED' % bad))
    sys.stdout.flush()
    return 0 if not bad else 2

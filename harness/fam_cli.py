"""C03 / C17 (distribution) / C18: real `treetools` subprocess runs; written files are
split into lexical records (fam_io)."""
import gzip
import os
import random
import shutil
import subprocess
import tempfile

from . import core, treeio, fam_io

un = treeio.unchars


def file_records(fmt, opts, text):
    if fmt == 'export':
        return {'lines': fam_io.export_lines(text)}
    if fmt == 'tigerxml':
        return fam_io.tiger_record(text)
    lines = text.split('\n')
    if lines and lines[-1] == '':
        lines = lines[:-1]
    if fmt == 'brackets':
        return {'lines': [fam_io.bracket_tokens(ln) for ln in lines]}
    if fmt == 'discobrackets':
        out = []
        for ln in lines:
            left, _, right = ln.partition('\t')
            out.append({'toks': fam_io.bracket_tokens(left),
                        'sent': [treeio.chars(w) for w in right.split(' ')] if right != '' else []})
        return {'lines': out}
    if fmt == 'terminals':
        return {'lines': [[treeio.chars(t) for t in fam_io.ws_split(ln)] for ln in lines]}
    raise ValueError(fmt)


def render_corpus(fmt, Ts, sids, four, rnd):
    if fmt == 'export':
        return ''.join(fam_io.render_export(T, s, four, rnd) for T, s in zip(Ts, sids))
    if fmt == 'brackets':
        return ''.join(fam_io.render_brackets(T, rnd) + '\n' for T in Ts)
    if fmt == 'discobrackets':
        return ''.join(fam_io.render_brackets(T, random.Random(1), numbers=True) + '\t' +
                       ' '.join(un(x['a']['word']) for x in sorted([x for x in T['nodes'] if x['tok']], key=lambda x: x['y'][0]))
                       + '\n' for T in Ts)
    body = ''.join(fam_io.render_tiger_s(T, s, rnd) for T, s in zip(Ts, sids))
    return "<?xml version='1.0' encoding='utf-8'?>\n<corpus>\n<body>\n" + body + "</body>\n</corpus>\n"


def treetools(args, cwd, env=None):
    e = dict(os.environ)
    e['PYTHONHASHSEED'] = e.get('PYTHONHASHSEED', '0')
    if env:
        e.update(env)
    p = subprocess.run([core.VENV_PY, os.path.join(core.REPO, 'treetools')] + args, cwd=cwd, env=e,
                       stdout=subprocess.PIPE, stderr=subprocess.PIPE, timeout=120)
    return p.returncode, p.stdout.decode('utf-8', 'replace'), p.stderr.decode('utf-8', 'replace')


def read_text(path, enc):
    with open(path, 'rb') as f:
        return f.read().decode(enc)


def spec_text(split):
    from .run_split import render
    return render(split)


def record_cli_case(cid, corpora, srcfmt, destfmt, split, filt, mods, seed, origin='tlc', with_back=True, force=None):
    """corpora: list (one per source file) of lists of abstract trees"""
    mods = mods or treeio.repo_modules()
    rnd = random.Random(seed)
    four = srcfmt == 'export' and rnd.random() < 0.5
    destopts = []
    r_ = rnd.random()
    if destfmt == 'export' and r_ < 0.3:
        destopts = ['export_four']
    elif destfmt in ('export', 'brackets', 'discobrackets') and r_ < 0.45:
        destopts = ['gf']
    elif destfmt == 'brackets' and r_ < 0.6:
        destopts = ['brackets_emptyroot']
    if force and 'destopts' in force:
        destopts = list(force['destopts'])
    srcopts = []
    r2_ = rnd.random()
    if srcfmt in ('export', 'tigerxml') and r2_ < 0.25:
        srcopts = ['continuous']
    elif srcfmt != 'discobrackets' and r2_ < 0.4:
        srcopts = ['gf_split']
    src_enc = rnd.choice(['utf-8', 'latin-1', 'utf-16']) if srcfmt != 'tigerxml' else 'utf-8'
    dest_enc = rnd.choice(['utf-8', 'utf-8', 'latin-1', 'utf-16'])
    gz = srcfmt in ('export', 'brackets', 'discobrackets') and rnd.random() < 0.4
    if srcfmt == 'tigerxml' and (seed % 3 == 0 or (force and force.get('tiger_missing'))):
        # TIGER-XML source without the optional lemma / morph attributes: the trees carry no value there
        import copy
        corpora = copy.deepcopy(corpora)
        for Ts in corpora:
            for T in Ts:
                for x in T['nodes']:
                    if x['tok']:
                        for k_ in ('lemma', 'morph'):
                            if rnd.random() < 0.6:
                                x['a'][k_] = ['~~']
    sids, texts = [], []
    for ci, Ts in enumerate(corpora):
        s0 = rnd.choice([1, 10, 100])
        ss = [s0 + k for k in range(len(Ts))] if srcfmt in ('export', 'tigerxml') else [1 + k for k in range(len(Ts))]
        sids.append(ss)
        texts.append(render_corpus(srcfmt, Ts, ss, four, rnd))
    for t in texts:
        for enc_name in ('src', 'dest'):
            try:
                t.encode(src_enc if enc_name == 'src' else dest_enc)
            except UnicodeEncodeError:
                if enc_name == 'src':
                    src_enc = 'utf-8'
                else:
                    dest_enc = 'utf-8'
    tmp = tempfile.mkdtemp(prefix='vf_cli_')
    case = {'id': cid, 'origin': origin, 'srcfmt': srcfmt, 'destfmt': destfmt, 'srcopts': srcopts, 'destopts': destopts,
            'four': 'T' if four else 'F', 'trees': corpora, 'sids': sids, 'split': split,
            'filt': {'on': 'T' if filt['on'] else 'F', 'op': filt['op'], 'val': filt['val']},
            'destnames': [], 'partnames': [], 'events': [], 'src_enc': src_enc, 'dest_enc': dest_enc, 'gz': gz}
    try:
        dirmode = len(corpora) > 1
        names = []
        # (a directory name may contain characters that mean something to glob / fnmatch)
        sdir = 'srcdir' if seed % 2 == 0 else 'src[v2] dir'
        if dirmode:
            os.mkdir(os.path.join(tmp, sdir))
        for ci, t in enumerate(texts):
            fn = ('%s/f%d.%s' % (sdir, ci, srcfmt) if dirmode else 'src.' + srcfmt) + ('.gz' if gz else '')
            data = t.encode(src_enc)
            fam_io.write_maybe_gz(os.path.join(tmp, fn), data, gz, rnd)
            names.append(fn)
        src = sdir if dirmode else names[0]
        case['destnames'] = [n + '.dest' for n in names] if dirmode else ['dest.out']
        args = ['transform', src, 'dest.out', '--src-format', srcfmt, '--dest-format', destfmt,
                '--src-enc', src_enc, '--dest-enc', dest_enc]
        args += ['--src-opts', 'quiet'] + srcopts
        if destopts:
            args += ['--dest-opts'] + destopts
        if split:
            args += ['--split', spec_text(split)]
        if filt['on']:
            args += ['--trans', 'filter_by_length', '--params', 'filteroperator:%s' % filt['op'],
                     'filtervalue:%d' % filt['val']]
        rc, out, err = treetools(args, tmp)
        ev = {'a': 'run', 'rc': rc, 'files': [], 'argv': ' '.join(args), 'stderr': err[-300:] if rc else ''}
        produced = sorted(f for f in (os.listdir(tmp) + [sdir + '/' + x for x in (os.listdir(os.path.join(tmp, sdir)) if dirmode else [])])
                          if f.startswith('dest.out') or f.endswith('.dest'))
        case['partnames'] = ['dest.out.%d' % i for i in range(len(produced))] if split else []
        if rc == 0:
            for fn in produced:
                try:
                    if destfmt == 'tigerxml':
                        # the XML document is parsed from its bytes (its own declaration says how to decode it)
                        with open(os.path.join(tmp, fn), 'rb') as fb:
                            rec = fam_io.tiger_record(fb.read())
                    else:
                        rec = file_records(destfmt, destopts, read_text(os.path.join(tmp, fn), dest_enc))
                    ev['files'].append({'name': fn, 'rec': rec})
                except Exception as ex:
                    ev['files'].append({'name': fn, 'rec': {'lines': [], 'ok': 'F', 'sents': []},
                                        'err': type(ex).__name__})
        case['events'].append(ev)
        if rc == 0 and not split and destfmt != 'terminals' and set(destopts) <= {'export_four'}:
            for ci, fn in enumerate(case['destnames']):
                if os.path.exists(os.path.join(tmp, fn)):
                    params = {'quiet': True}
                    evs = fam_io.run_reader(mods, destfmt, os.path.join(tmp, fn), dest_enc, params)
                    case['events'].append({'a': 'selfread', 'src': ci + 1, 'events': evs})
            if with_back and not dirmode:
                # second step: back into the source format (A -> B -> A) and on into a third one (A -> B -> C)
                others = [f_ for f_ in ('export', 'tigerxml', 'discobrackets', 'brackets', 'terminals')
                          if f_ not in (srcfmt, destfmt)]
                if any(len(T['nodes']) == 1 for Ts in corpora for T in Ts):
                    # the one-node tree (a single node that is root and token at once) exists in the bracket formats
                    # only: export and TIGER-XML write the children of a root, they cannot represent it - the third
                    # format of a chain stays among the formats able to represent the trees, as the property says
                    others = [f_ for f_ in others if f_ in ('discobrackets', 'brackets', 'terminals')]
                for tgt, outname in ((srcfmt, 'back.out'), (rnd.choice(others), 'chain.out')):
                    args2 = ['transform', 'dest.out', outname, '--src-format', destfmt, '--dest-format', tgt,
                             '--src-enc', dest_enc, '--dest-enc', 'utf-8', '--src-opts', 'quiet',
                             '--counting', str(rnd.choice([1, 2, 100]))]
                    rc2, out2, err2 = treetools(args2, tmp)
                    ev2 = {'a': 'back', 'src': 1, 'rc': rc2, 'name': outname, 'fmt': tgt, 'files': [],
                           'stderr': err2[-300:] if rc2 else ''}
                    if rc2 == 0 and os.path.exists(os.path.join(tmp, outname)):
                        if tgt == 'tigerxml':
                            with open(os.path.join(tmp, outname), 'rb') as fb:
                                rec2 = fam_io.tiger_record(fb.read())
                        else:
                            rec2 = file_records(tgt, [], read_text(os.path.join(tmp, outname), 'utf-8'))
                        ev2['files'].append({'name': outname, 'rec': rec2})
                    case['events'].append(ev2)
    finally:
        shutil.rmtree(tmp, ignore_errors=True)
    return case

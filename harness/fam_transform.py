"""Transformation family: drive the real transformations along an operation
sequence and dump the raw pointer graph after every public call."""
import contextlib
import io
import json
import random

from . import treeio


def export_config(mods):
    """Constants the properties take as given, read from the working tree."""
    trees = mods['trees']
    tc = mods['transformconst']

    def rules(tab):
        out = []
        for parent in sorted(tab):
            out.append([list(parent), [[d, [list(c) for c in pri.split()]] for (d, pri) in tab[parent]]])
        return out
    return {'PUNCT': sorted(set(trees.PUNCT)), 'PAIRPUNCT': sorted(set(trees.PAIRPUNCT)),
            'rules': {'negra': rules(tc.HEAD_RULES_NEGRA), 'ptb': rules(tc.HEAD_RULES_PTB)}}


def _join_labels(T):
    """labels of this family are character sequences in the abstract tree"""
    import copy
    T = copy.deepcopy(T)
    for x in T['nodes']:
        if isinstance(x['a']['lab'], list):
            x['a']['lab'] = ''.join(x['a']['lab'])
    return T


def norm_op(o):
    d = {'name': o['name'], 'relc': ''.join(o.get('relc', []) or []), 'bare': bool(o.get('bare', False)),
         'pos': int(o.get('pos', 0)), 'preset': o.get('preset', '~'),
         'keep': [''.join(k) for k in o.get('keep', [])], 'flags': sorted(o.get('flags', [])),
         'rows': [{'idx': int(r['idx']), 'word': r['word'], 'tag': ''.join(r['tag'])} for r in o.get('rows', [])],
         'fop': o.get('fop', '~'), 'fval': int(o.get('fval', 0))}
    return d


_TF_COUNTER = [0]
_TF_FILES = {}


def _terminal_file(tmpdir, sid, rows):
    """one terminal file per (case, rows), as in a run of the tool, where one file serves every tree; its name
    is never reused for other contents (the transformations cache the file by name)"""
    import os
    key = (tmpdir, sid, json.dumps(rows, sort_keys=True))
    if key in _TF_FILES:
        return _TF_FILES[key]
    _TF_COUNTER[0] += 1
    fn = os.path.join(tmpdir, 'terms_%d_%d.txt' % (os.getpid(), _TF_COUNTER[0]))
    _TF_FILES[key] = fn
    with open(fn, 'w') as f:
        f.write('%d 1 decoy DECOY\n' % (sid + 7))
        for r in rows:
            f.write('%d %d %s %s\n' % (sid, r['idx'], r['word'], r['tag']))
        f.write('%d 2 decoy2 DECOY\n' % (sid + 9))
    return fn


def call_op(mods, o, tree, tmpdir=None, sibling=False):
    """sibling: before the call, the same operation with the same terminal file is applied to another tree that
    has the same sentence id (a second file in directory mode; its result is not looked at)"""
    tf = mods['transform']
    trees = mods['trees']
    name = o['name']
    params = {}
    if name == 'punctuation_symetrify' and o['relc'] != '':
        params['relc'] = o['relc']
    if name == 'binarize' and o['bare']:
        params['bare_bin_labels'] = True
    if name == 'mark_heads_by_rules' and o['preset'] != '~':
        params['mark_heads_preset'] = o['preset']
    if name == 'punctuation_delete' and 'verbose' not in o['flags']:
        params['quiet'] = True
    if name == 'ptb_delete_traces':
        if o['keep']:
            params['keep'] = ','.join(o['keep'])
        for fl in ('keepall', 'keepcoindex'):
            if fl in o['flags']:
                params[fl] = True
    if name in ('insert_terminals', 'substitute_terminals'):
        params['terminalfile'] = _terminal_file(tmpdir, tree.data['sid'], o['rows'])
        if 'quiet' in o['flags']:
            params['quiet'] = True
        if sibling:
            import copy
            with contextlib.redirect_stdout(io.StringIO()), contextlib.redirect_stderr(io.StringIO()):
                try:
                    sib = copy.deepcopy(tree)
                    # every other sibling is shorter than the tree itself: rows that are out of range for it are
                    # still due for the tree
                    leaves = trees.terminals(sib)
                    if len(leaves) >= 3 and tree.data.get('sid', 0) % 2 == 1 and len(o['rows']) % 2 == 1:
                        for lf in leaves[-2:]:
                            trees.delete_terminal(sib, lf)
                    getattr(tf, name)(sib, **params)
                except Exception:
                    pass
    if name == 'filter_by_length':
        params['filteroperator'] = o['fop']
        params['filtervalue'] = o['fval']
    if name == 'delete_terminal':
        leaf = trees.terminals(tree)[o['pos'] - 1]
        trees.delete_terminal(tree, leaf)
        return tree
    return getattr(tf, name)(tree, **params)


def record_case(cid, T, ops, mods, seed, origin='tlc', shuffle=True, exotic=True):
    mods = mods or treeio.repo_modules()
    rnd = random.Random(seed)
    trees = mods['trees']
    protect = set(trees.PUNCT) | {'-NONE-'} | {x['a']['word'] for x in T['nodes']
                                               if x['tok'] and ''.join(x['a']['lab']) == '-NONE-'}
    atoms = treeio.Atoms(seed, exotic=exotic, protect=protect)
    root = treeio.build(_join_labels(T), mods, atoms, rnd if shuffle else None)
    root.data['sid'] = 1
    # provenance / history: every fifth tree comes out of the tool's own export reader, is kept, and waits while
    # another (tiny) treebank is opened and read - node identity and node data must not depend on what else
    # was read in the meantime
    other_reader = seed % 5 == 1 and all(x['a'].get('head', '~') == '~' and x['a'].get('split', '~') == '~'
                                         for x in T['nodes']) \
        and [x for x in T['nodes'] if x['d'] == 0][0]['a']['lab'] in ('VROOT', list('VROOT'))
    if other_reader:
        import copy
        import os as _os
        import tempfile as _tf
        from . import fam_io
        d_ = _tf.mkdtemp(prefix='vf_tfr_')
        try:
            T1 = copy.deepcopy(_join_labels(copy.deepcopy(T)))
            for x in T1['nodes']:
                for f_ in ('lemma', 'morph', 'edge'):
                    if x['a'].get(f_, '~') == '~':
                        x['a'][f_] = '--'
                if x['tok']:
                    x['a']['word'] = atoms.conc(x['a']['word'], 'word')
            fn_ = _os.path.join(d_, 'kept.export')
            with open(fn_, 'w', encoding='utf-8') as f_:
                f_.write(fam_io.render_export(T1, 1, False, random.Random(seed)))
            with contextlib.redirect_stdout(io.StringIO()), contextlib.redirect_stderr(io.StringIO()):
                root = list(mods['treeinput'].export(fn_, 'utf-8', quiet=True))[0]
                fo_ = _os.path.join(d_, 'other.brackets')
                with open(fo_, 'w') as f2_:
                    f2_.write('(S (T a))\n')
                list(mods['treeinput'].brackets(fo_, 'utf-8'))
        except Exception:
            other_reader = False
            root = treeio.build(_join_labels(T), mods, atoms, rnd if shuffle else None)
            root.data['sid'] = 1
        finally:
            import shutil as _sh
            _sh.rmtree(d_, ignore_errors=True)
    # provenance: every fifth tree has been written once before it is transformed (a script that saves the
    # original first); the export writer leaves its node numbering in the node data of every constituent
    prewritten = seed % 5 == 3
    if prewritten:
        try:
            with contextlib.redirect_stdout(io.StringIO()), contextlib.redirect_stderr(io.StringIO()):
                mods['treeoutput'].export(root, io.StringIO())
        except Exception:
            prewritten = False
    dmp = treeio.Dumper(atoms, lab_chars=True)
    G0 = dmp.dump(root)
    events = []
    cur = root
    import tempfile, shutil
    tmpdir = tempfile.mkdtemp(prefix='vf_tf_')
    for o in ops:
        o = norm_op(o)
        # words of terminal-file rows are atoms like the words of the tree: the file carries the concrete strings
        for r in o['rows']:
            r['word'] = atoms.conc(r['word'], 'word') if r['word'] != '' else r['word']
        ev = {'a': o['name'], 'args': {'relc': list(o['relc']),
                                       'bare': 'T' if o['bare'] else 'F',
                                       'pos': o['pos'], 'preset': o['preset'],
                                       'keep': [list(k) for k in o['keep']], 'flags': o['flags'],
                                       'rows': [{'idx': r['idx'], 'word': atoms.abst(r['word']),
                                                 'tag': list(r['tag'])} for r in o['rows']],
                                       'fop': o['fop'], 'fval': o['fval']}}
        out = io.StringIO()
        err = io.StringIO()
        try:
            with contextlib.redirect_stdout(out), contextlib.redirect_stderr(err):
                ret = call_op(mods, o, cur, tmpdir, sibling=seed % 2 == 1)
            ev['res'] = 'ok'
            ev['exc'] = '~'
            ev['post'] = dmp.dump(ret, also=[cur])
            ev['printed'] = [ln for ln in out.getvalue().splitlines()][:50]
            if ret is None:
                ev['res'] = 'none'
                events.append(ev)
                break
            cur = ret
            # later calls go to the top of the returned tree, as a caller holding the
            # result of the previous call would do
        except Exception as ex:
            ev['res'] = 'exc'
            ev['exc'] = type(ex).__name__
            ev['msg'] = str(ex)[:100]
            events.append(ev)
            break
        events.append(ev)
    shutil.rmtree(tmpdir, ignore_errors=True)
    for k in [k for k in _TF_FILES if k[0] == tmpdir]:
        del _TF_FILES[k]
    # trace words as characters (ptb_delete_traces parses them)
    wc = sorted({(x['a']['word'], tuple(treeio.chars(atoms.conc(x['a']['word'])))) for x in T['nodes']
                 if x['tok'] and ''.join(x['a']['lab']) == '-NONE-'})
    # the graphs of earlier events must list the same indices as later ones
    n = len(dmp.objs)
    for g in [G0] + [e['post'] for e in events if 'post' in e]:
        while len(g['nodes']) < n:
            g['nodes'].append(dead_record(dmp))
    return {'id': cid, 'origin': origin, 'init': G0, 'events': events,
            'wc': [[w, list(c)] for (w, c) in wc], 'sibling_first': seed % 2 == 1, 'prewritten': prewritten,
            'other_reader': other_reader}


def dead_record(dmp):
    return {'live': 'F', 'par': 0, 'kids': [], 'num': 0, 'lab': ['~~'] if dmp.lab_chars else '~',
            'word': '~', 'lemma': '~', 'morph': '~', 'edge': '~', 'head': '~', 'split': '~',
            'hb': '~', 'bn': 0}

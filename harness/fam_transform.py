"""Transformation family: drive the real transformations along an operation
sequence and dump the raw pointer graph after every public call."""
import contextlib
import io
import random

from . import treeio


def export_config(mods):
    """Constants the properties take as given, read from the working tree."""
    trees = mods['trees']
    tc = mods['transformconst']

    def rules(tab):
        out = []
        for parent in sorted(tab):
            out.append([list(parent), [[d, [list(c) for c in pri.split()]] for (d, pri) in tab[parent]]])
        return out
    return {'PUNCT': sorted(set(trees.PUNCT)), 'PAIRPUNCT': sorted(set(trees.PAIRPUNCT)),
            'rules': {'negra': rules(tc.HEAD_RULES_NEGRA), 'ptb': rules(tc.HEAD_RULES_PTB)}}


def _join_labels(T):
    """labels of this family are character sequences in the abstract tree"""
    import copy
    T = copy.deepcopy(T)
    for x in T['nodes']:
        if isinstance(x['a']['lab'], list):
            x['a']['lab'] = ''.join(x['a']['lab'])
    return T


def norm_op(o):
    d = {'name': o['name'], 'relc': ''.join(o.get('relc', []) or []), 'bare': bool(o.get('bare', False)),
         'pos': int(o.get('pos', 0)), 'preset': o.get('preset', '~')}
    return d


def call_op(mods, o, tree):
    tf = mods['transform']
    trees = mods['trees']
    name = o['name']
    params = {}
    if name == 'punctuation_symetrify' and o['relc'] != '':
        params['relc'] = o['relc']
    if name == 'binarize' and o['bare']:
        params['bare_bin_labels'] = True
    if name == 'mark_heads_by_rules' and o['preset'] != '~':
        params['mark_heads_preset'] = o['preset']
    if name == 'punctuation_delete':
        params['quiet'] = True
    if name == 'delete_terminal':
        leaf = trees.terminals(tree)[o['pos'] - 1]
        trees.delete_terminal(tree, leaf)
        return tree
    return getattr(tf, name)(tree, **params)


def record_case(cid, T, ops, mods, seed, origin='tlc', shuffle=True, exotic=True):
    mods = mods or treeio.repo_modules()
    rnd = random.Random(seed)
    trees = mods['trees']
    protect = set(trees.PUNCT) | {'-NONE-'}
    atoms = treeio.Atoms(seed, exotic=exotic, protect=protect)
    root = treeio.build(_join_labels(T), mods, atoms, rnd if shuffle else None)
    root.data['sid'] = 1
    dmp = treeio.Dumper(atoms, lab_chars=True)
    G0 = dmp.dump(root)
    events = []
    cur = root
    for o in ops:
        o = norm_op(o)
        ev = {'a': o['name'], 'args': {'relc': list(o['relc']),
                                       'bare': 'T' if o['bare'] else 'F',
                                       'pos': o['pos'], 'preset': o['preset']}}
        out = io.StringIO()
        err = io.StringIO()
        try:
            with contextlib.redirect_stdout(out), contextlib.redirect_stderr(err):
                ret = call_op(mods, o, cur)
            ev['res'] = 'ok'
            ev['exc'] = '~'
            ev['post'] = dmp.dump(ret, also=[cur])
            ev['printed'] = [ln for ln in out.getvalue().splitlines()][:50]
            if ret is None:
                ev['res'] = 'none'
                events.append(ev)
                break
            cur = ret
            # later calls go to the top of the returned tree, as a caller holding the
            # result of the previous call would do
        except Exception as ex:
            ev['res'] = 'exc'
            ev['exc'] = type(ex).__name__
            ev['msg'] = str(ex)[:100]
            events.append(ev)
            break
        events.append(ev)
    # the graphs of earlier events must list the same indices as later ones
    n = len(dmp.objs)
    for g in [G0] + [e['post'] for e in events if 'post' in e]:
        while len(g['nodes']) < n:
            g['nodes'].append(dead_record(dmp))
    return {'id': cid, 'origin': origin, 'init': G0, 'events': events}


def dead_record(dmp):
    return {'live': 'F', 'par': 0, 'kids': [], 'num': 0, 'lab': ['~~'] if dmp.lab_chars else '~',
            'word': '~', 'lemma': '~', 'morph': '~', 'edge': '~', 'head': '~', 'split': '~',
            'hb': '~', 'bn': 0}

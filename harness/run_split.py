"""Check C17 (output splitting): arithmetic of the specification parser and the
distribution of trees over parts by `treetools transform --split`."""
import contextlib
import io
import json
import random

from . import core, treeio

BAD = ['x#', '5', '1.5%', 'rest2', '#', '%', 'REST', '3 #']


def render(spec):
    out = []
    for p in spec:
        if p['k'] == 'pct':
            out.append('%d%%' % p['n'])
        elif p['k'] == 'abs':
            out.append('%d#' % p['n'])
        elif p['k'] == 'rest':
            out.append('rest')
        else:
            out.append(BAD[p['n'] % len(BAD)])
    return '_'.join(out)


def record_case(cid, spec, size, mods, origin='tlc'):
    mods = mods or treeio.repo_modules()
    to = mods['treeoutput']
    s = render(spec)
    c = {'id': cid, 'origin': origin, 'spec': spec, 'size': size, 'text': s, 'res': 'ok', 'parts': []}
    try:
        with contextlib.redirect_stderr(io.StringIO()):
            parts = to.parse_split_specification(s, size)
        c['parts'] = [int(x) if isinstance(x, int) and not isinstance(x, bool) else -999999 for x in parts]
    except Exception as ex:
        c['res'] = 'exc'
        c['exc'] = type(ex).__name__
    return c


def tok(k, n=0):
    return {'k': k, 'n': n}


def tokens(tier):
    if tier == 'quick':
        return [tok('abs', n) for n in (0, 1, 2, 3, 6, 7, -1)] + \
               [tok('pct', n) for n in (0, 10, 33, 50, 100, 150, -5)] + [tok('rest'), tok('bad', 0)]
    return [tok('abs', n) for n in (0, 1, 2, 3, 4, 6, 11, 12, 13, -1)] + \
           [tok('pct', n) for n in (0, 1, 10, 29, 33, 50, 67, 100, 150, -5)] + \
           [tok('rest'), tok('bad', 0), tok('bad', 1), tok('bad', 2), tok('bad', 3)]


CFG = """CONSTANTS Tokens <- c_Tokens
 Sizes <- c_Sizes
 MaxParts = %d
 Dev = {%s}
INIT Init
NEXT Next
INVARIANT InvC17
%s
CHECK_DEADLOCK FALSE
"""
TRACE_CFG = 'CONSTANTS Dev = {}\nINIT TInit\nNEXT TNext\nCHECK_DEADLOCK FALSE\n'


def run(prop, tier, seed, replay=None, rep=None, finish=True):
    mods = treeio.repo_modules()
    rep = rep or core.Report(prop, tier, seed)
    with core.Work('sp') as w:
        cases = []
        if replay:
            cases = [json.load(open(replay))['case']]
        else:
            todo = []

            def mc(name, toks, sizes, maxparts, note):
                core.gen_module(w, name, ['MC_Split'],
                                {'c_Tokens': core.Raw('{' + ', '.join(core.tla(t) for t in toks) + '}'),
                                 'c_Sizes': set(sizes)})
                r = core.tlc(w, name, CFG % (maxparts, '', 'INVARIANT Emit'), coverage=True, timeout=3000)
                core.tlc_ok(r, name)
                rep.add_mc('%s maxparts=%d tokens=%d sizes=%d' % (name, maxparts, len(toks), len(sizes)), r, note)
                seen = set()
                for c in r.cases:
                    key = json.dumps(c, sort_keys=True)
                    if key not in seen:
                        seen.add(key)
                        todo.append(('%s-%06d' % (name, len(seen)), c['spec'], c['size'], None))
            S = 6 if tier == 'quick' else 12
            mc('MCS1', tokens(tier), range(0, S + 1), 3,
               'all specifications of <= 3 parts x sizes 0..S: one part per action, Finalize; clauses hold')
            sizes = sorted(set(list(range(0, 51)) + list(range(0, 2001, 20)))) if tier == 'quick' else list(range(0, 2001))
            mc('MCS2', [tok('pct', p) for p in range(0, 101)], sizes, 1,
               'percentages 0..100 x realistic sizes (integer floor vs. float rounding)')
            pcts = [0, 1, 10, 25, 29, 33, 50, 57, 67, 90, 99, 100] if tier == 'quick' else list(range(0, 101))
            mc('MCS3', [tok('pct', p) for p in pcts] + [tok('rest')],
               list(range(0, 131)) + [199, 1000, 1999] if tier == 'quick' else list(range(0, 301)) + [999, 1000, 1999], 2,
               'two-part percentage/percentage and percentage/rest specifications x every size 0..130/300: a rounding error '
               'in one part is not masked by the remainder going back to the same part')
            # symbolic run: the same operators for EVERY treebank size (Apalache, unbounded integers)
            def apa(maxparts, dev, want):
                w.write('Apa_SplitConsts.tla', '---- MODULE Apa_SplitConsts ----\n\\* @type: Set(Str);\nDevC == {%s}\n'
                        'MaxPartsC == %d\n====\n' % (', '.join('"%s"' % d for d in dev), maxparts))
                outcome, wall, out = core.apalache(w, 'Apa_Split', 'Inv', length=0, timeout=2400)
                if outcome != want:
                    raise core.MachineryError('Apalache on Apa_Split (maxparts=%d, Dev=%s): outcome %s, expected %s\n%s'
                                              % (maxparts, dev, outcome, want, out[-3000:]))
                rep.extra.setdefault('symbolic_runs', []).append(
                    {'tool': 'apalache-mc 0.58', 'module': 'Apa_Split', 'invariant': 'Inv', 'max_parts': maxparts,
                     'size': 'every natural number (unbounded integer)', 'absolute_part_sizes': 'every integer',
                     'percentages': '-1..150', 'Dev': sorted(dev), 'outcome': outcome, 'wall_s': round(wall, 1)})
            apa(2 if tier == 'quick' else 3, [], 'NoError')
            apa(2, ['split_negative_accepted'], 'Error')      # non-vacuity: the deviation must be refuted
            rep.exhaustive = True
            rnd = random.Random(seed)
            for k in range(2000 if tier == 'quick' else 30000):
                n = rnd.randint(1, 5)
                spec = [rnd.choice([tok('abs', rnd.randint(0, 400)), tok('pct', rnd.randint(0, 100)), tok('rest'),
                                    tok('pct', rnd.randint(0, 40)), tok('abs', rnd.randint(0, 50))]) for _ in range(n)]
                todo.append(('R-%06d' % k, spec, rnd.randint(0, 5000), None, 'random'))
            cases = core.pmap(record_case, todo, chunksize=2000)
        byid = {c['id']: c for c in cases}
        verdicts, wall = core.validate_traces(w, 'Trace_Split', cases, cfg=TRACE_CFG, chunk=30000)
        rep.extra['trace_validation_wall_s'] = round(wall, 1)
        rep.judge(byid, verdicts, site_of=lambda c, s: 'parse_split_specification')
        rep.rule = ('TLC enumerates every specification of up to 3 parts over the token inventory x every size 0..S and every '
                    '(percentage 0..100 [, rest]) x realistic size up to 2000, parsing one part per action; each (spec, size) '
                    'is given to the real parser; plus random specifications of up to 5 parts with sizes up to 5000. '
                    'non-trivial = accepted specification of more than one part')
        rep.samples = cases[:2] + cases[-1:]
        rep.assumptions = ['TLC exact integer arithmetic is the oracle for floor(p*size/100)']
        if not finish:
            return byid
        return rep.finish(byid)

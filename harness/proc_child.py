"""child process for C18: executes ONE call in a fresh interpreter and prints its result"""
import json
import sys

from . import fam_proc

if __name__ == '__main__':
    call = json.loads(sys.stdin.read())
    print(json.dumps(fam_proc.exec_call(call, sys.argv[1])))

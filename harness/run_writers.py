"""Check C02 (writers)."""
import itertools
import json
import random

from . import core, treeio, fam_io

ch = treeio.chars


def kind(word, tag='NN', edge='--', sfx=False, lemma='--', morph='--'):
    return {'word': ch(word), 'tag': ch(tag), 'edge': ch(edge), 'sfx': sfx, 'lemma': ch(lemma), 'morph': ch(morph)}


# field lengths around the export tab stops (7/8, 15/16, 23/24; the morphology column is offset by 8)
LENKINDS = [kind('a' * 7, morph='Comp.Nom.Sg.Masc', lemma='l' * 8), kind('b' * 8, morph='m' * 15, lemma='l' * 7),
            kind('c' * 15, morph='m' * 8, lemma='l' * 16), kind('d' * 16, morph='m' * 7, lemma='l' * 15),
            kind('e' * 24, morph='m' * 17, lemma='l' * 23), kind('f' * 23, morph='m' * 24, lemma='l' * 24)]


OPTS = {
    'export': ['export_four', 'gf', 'mark_heads_marking', 'boyd_split_marking', 'boyd_split_numbering'],
    'brackets': ['brackets_emptyroot', 'brackets_skipdisco', 'gf', 'gf_terminals', 'mark_heads_marking',
                 'boyd_split_marking', 'boyd_split_numbering'],
    'discobrackets': ['brackets_emptyroot', 'gf', 'gf_terminals', 'mark_heads_marking', 'boyd_split_numbering'],
    'terminals': ['terminals_one', 'terminals_pos'],
    'tigerxml': [],
}


def optsets(tier, rnd):
    jobs = []
    for fmt, names in OPTS.items():
        subsets = []
        maxk = len(names) if tier != 'quick' else 1
        for k in range(0, maxk + 1):
            subsets.extend(itertools.combinations(names, k))
        if tier == 'quick' and len(names) > 1:
            subsets.append(tuple(names))
            subsets.extend(tuple(rnd.sample(names, 2)) for _ in range(2))
        for sub in sorted(set(subsets)):
            jobs.append({'fmt': fmt, 'o': set(sub), 'gfsep': '-'})
            if 'gf' in sub and (tier != 'quick' or len(sub) <= 2):
                jobs.append({'fmt': fmt, 'o': set(sub), 'gfsep': '#'})
            # (thorough: only with small option sets - the job is part of the TLC state and the model is near the heap limit)
            if 'gf' in sub and len(sub) <= (1 if tier == 'quick' else 2):
                # a separator the command line delivers as the integer 0 (misc.options_dict turns digits into int)
                jobs.append({'fmt': fmt, 'o': set(sub), 'gfsep': '0'})
                # ... and the empty separator (`gf_separator:`), "~" in the specification
                jobs.append({'fmt': fmt, 'o': set(sub), 'gfsep': '~'})
    return jobs


CFG = """CONSTANTS N = %(N)d
 MaxCons = %(MaxCons)d
 MaxChain = %(MaxChain)d
 TokKinds <- c_TokKinds
 CLabels <- c_CLabels
 CEdges <- c_CEdges
 OptSets <- c_OptSets
 Profiles <- c_Profiles
 BrTab <- c_BrTab
 Dev = {}
INIT Init
NEXT Next
INVARIANT InvEncodeDecode
INVARIANT Emit
CHECK_DEADLOCK FALSE
"""
TRACE_CFG = 'CONSTANTS Dev = {}\nINIT TInit\nNEXT TNext\nCHECK_DEADLOCK FALSE\n'


def models(tier):
    # (a token with two different kinds of brackets: every kind is replaced, not only the first that matches)
    q = [dict(N=3, MaxCons=2, MaxChain=2, kinds=[kind('w', sfx=True), kind('(a]'), kind('a&<', tag='$(')],
              labels=['NP'], edges=['HD', '--'], profiles=[[], ['lemma'], ['edge', 'morph']]),
         dict(N=4, MaxCons=3, MaxChain=1, kinds=[kind('w', sfx=True)], labels=['S'], edges=['--'],
              profiles=[[]], only=['export', 'brackets', 'tigerxml', 'discobrackets']),
         dict(N=2, MaxCons=2, MaxChain=1, kinds=LENKINDS, labels=['S'], edges=['--'], profiles=[[]],
              only=['export', 'tigerxml'])]
    t = [dict(N=3, MaxCons=2, MaxChain=2,
              kinds=[kind('w', sfx=True), kind('(a]'), kind('a&<', tag='$('), kind(u'Üb"\'', sfx=True)],
              labels=['S-X'], edges=['HD', '--'],
              profiles=[[], ['lemma'], ['morph'], ['edge', 'morph']]),
         dict(N=5, MaxCons=4, MaxChain=1, kinds=[kind('w', sfx=True)], labels=['S'], edges=['--'],
              profiles=[[]], only=['export', 'brackets', 'tigerxml', 'discobrackets']),
         dict(N=3, MaxCons=2, MaxChain=1, kinds=LENKINDS, labels=['S'], edges=['--'], profiles=[[]],
              only=['export', 'tigerxml'])]
    return q if tier == 'quick' else t


def site_of(case, step):
    if 1 <= step <= len(case['events']):
        return case['events'][step - 1]['fmt']
    return 'input'


def run(prop, tier, seed, replay=None):
    mods = treeio.repo_modules()
    cfgc = fam_io.export_config(mods)
    rep = core.Report(prop, tier, seed)
    rnd = random.Random(seed)
    with core.Work('wr') as w:
        core.sany(w, 'Trace_Writers')
        cases = []
        if replay:
            cases = [json.load(open(replay))['case']]
        else:
            todo = {}
            for k, m in enumerate(models(tier)):
                jobs = [j for j in optsets(tier, rnd) if j['fmt'] in m.get('only', list(OPTS))]
                if 'only' in m:
                    jobs = [j for j in jobs if len(j['o']) <= 1]
                core.gen_module(w, 'MCW%d' % k, ['MC_Writers'], {
                    'c_TokKinds': core.Raw('{' + ', '.join(core.tla(x) for x in m['kinds']) + '}'),
                    'c_CLabels': core.Raw('{' + ', '.join(core.tla(ch(x)) for x in m['labels']) + '}'),
                    'c_CEdges': core.Raw('{' + ', '.join(core.tla(ch(x)) for x in m['edges']) + '}'),
                    'c_OptSets': core.Raw('{' + ', '.join(core.tla(j) for j in jobs) + '}'),
                    'c_Profiles': core.Raw('{' + ', '.join(core.tla(set(p)) for p in m['profiles']) + '}'),
                    'c_BrTab': cfgc['brtab']})
                r = core.tlc(w, 'MCW%d' % k, CFG % m, coverage=True, timeout=3400)
                core.tlc_ok(r, 'MC_Writers #%d' % k)
                rep.add_mc('MC_Writers #%d N=%d MaxCons=%d kinds=%d jobs=%d profiles=%d'
                           % (k, m['N'], m['MaxCons'], len(m['kinds']), len(jobs), len(m['profiles'])), r,
                           'reference encoders decoded by the independent decoders give what the format carries')
                for c in r.cases:
                    key = json.dumps([c['tree'], c['sid']], sort_keys=True)
                    todo.setdefault(key, (c['tree'], c['sid'], []))[2].append((c['fmt'], sorted(c['opts']), c['gfsep']))
            rep.exhaustive = True
            args = []
            for n_, (key, (T, sid, jobs)) in enumerate(sorted(todo.items())):
                jobs = sorted(set((f, tuple(o), g) for (f, o, g) in jobs))
                args.append(('W-%06d' % n_, T, sid, [(f, list(o), g) for (f, o, g) in jobs], None, seed + n_))
            # seeded random larger trees with exotic words, all formats
            pool = ['w', '(', ')', 'a&b', '<t>', '"q"', "it's", u'Übermaß', u'日本', 'x' * 7, 'y' * 8,
                    'z' * 15, 'v' * 16, 'u' * 23, 't' * 24, 's' * 25, '#5000', '-LRB-', '[', '--', '%s', 'author(s)', '{x]', '(1)',
                    u'10\u00a0000', u'z.\u202fB.', u'a\u3000b', u'\u00a0x', u'p\u2028q']
            for k in range(150 if tier == 'quick' else 2500):
                T = treeio.random_tree(rnd, nmax=8 if tier == 'quick' else 11, maxcons=6, labels=('S', 'NP', 'VP-X', 'N"&<P'),
                                       edges=('HD', '--', 'NK', 'O"A'), tags=('NN', '$(', 'A"<'), tokedges=('--', 'HD'),
                                       words=lambda r_, p_: (lambda x: x + str(p_) if x == 'w' else x)(r_.choice(pool)))
                none_f = rnd.choice([[], [], ['lemma'], ['morph'], ['edge'], ['lemma', 'morph', 'edge']])
                for x in T['nodes']:
                    a = x['a']
                    for fld in ('lab', 'edge', 'lemma', 'morph', 'word'):
                        a[fld] = ch(a[fld]) if a[fld] != '~' else ['~~']
                    if not x['tok']:
                        a['lemma'], a['morph'] = ch('--'), ch('--')
                    else:
                        a['lemma'] = ch(rnd.choice(['--', 'l' * 7, 'l' * 8, 'l' * 15, 'l' * 16, 'l' * 24]))
                        a['morph'] = ch(rnd.choice(['--', 'm' * 7, 'm' * 8, 'm' * 15, 'Comp.Nom.Sg.Masc', 'm' * 24]))
                    a['head'] = rnd.choice(['T', 'F'])
                    a['split'] = rnd.choice(['T', 'F'])
                    a['bn'] = rnd.randint(1, 3)
                    if x['d'] > 0:
                        for fld in none_f:
                            a[fld] = ['~~']
                jobs = rnd.sample(optsets('thorough' if tier != 'quick' else 'quick', rnd), 6)
                args.append(('R-%05d' % k, T, rnd.randint(1, 900),
                             [(j['fmt'], sorted(j['o']), j['gfsep']) for j in jobs], None, seed + k, 'random'))
            cases = core.pmap(fam_io.record_write_case, args, chunksize=16)
        byid = {c['id']: c for c in cases}
        verdicts, wall = core.validate_traces(w, 'Trace_Writers', cases, header={'config': cfgc}, cfg=TRACE_CFG, chunk=400)
        rep.extra['trace_validation_wall_s'] = round(wall, 1)
        rep.extra['write_events'] = sum(len(c['events']) for c in cases)
        rep.judge(byid, verdicts, site_of=site_of)
        rep.rule = ('TLC builds every tree within the bounds x profiles of absent lemma/morph/edge x (format, option set) '
                    'jobs; each job writes a freshly built real tree through <fmt>_begin/<fmt>/<fmt>_end into a StringIO; '
                    'the text is split into lexical records and decoded / compared by TLC; plus seeded random trees with '
                    'XML-special, non-ASCII, parenthesis and tab-stop-length words. non-trivial = tree with a constituent '
                    'besides the root')
        rep.samples = [slim(cases[len(cases) // 3]), slim(cases[-1])] if cases else []
        rep.assumptions = ['TLC, SANY, CommunityModules', 'whitespace / parenthesis / tab splitting and xml.etree in the harness',
                           'BRACKETS replacement table is data of the implementation (exported at run time)']
        return rep.finish(byid)


def slim(case):
    c = dict(case)
    c['events'] = [{k: v for k, v in e.items() if k != 'rec'} for e in case['events']][:6]
    return c

"""Checks C06 (extraction), C07 (binarization), C08 (count conservation)."""
import json
import random

from . import core, treeio, fam_grammar as fg

CFG_EX = """CONSTANTS N = %(N)d
 MaxCons = %(MaxCons)d
 MaxChain = %(MaxChain)d
 CLabels = {"A", "B"}
 Tags = {"T", "A"}
 Dev = {}
INIT Init
NEXT Next
INVARIANT InvExtract
INVARIANT Emit
CHECK_DEADLOCK FALSE
"""
CFG_BIN = """CONSTANTS R = %(R)d
 V = %(V)d
 Modes <- c_Modes
 SameLabels = %(Same)s
 Dev = {}
INIT Init
NEXT Next
INVARIANT InvC07
INVARIANT InvMachine
INVARIANT Emit
CHECK_DEADLOCK FALSE
"""
TRACE_CFG = 'CONSTANTS Dev = {}\nINIT TInit\nNEXT TNext\nCHECK_DEADLOCK FALSE\n'
EX_BOUNDS = {'quick': [dict(N=4, MaxCons=3, MaxChain=2)], 'thorough': [dict(N=5, MaxCons=3, MaxChain=2)]}
BIN_BOUNDS = {'quick': [dict(R=4, V=5, Same='FALSE'), dict(R=4, V=4, Same='TRUE')],
              'thorough': [dict(R=5, V=5, Same='FALSE'), dict(R=4, V=5, Same='TRUE')]}
MC_MODES = ['det-none', 'det-optimal', 'mk-none-1-2', 'mk-optimal-1-1', 'mk-none-0-1', 'mk-none-1-2-nf']
ALL_MODES = list(fg.MODES)


def mode_tla(m):
    return {'reorder': m['reorder'], 'markov': m['markov'] == 'T', 'v': m['v'], 'h': m['h'],
            'nofanout': m['nofanout'] == 'T'}


def site_of(case, step):
    if 1 <= step <= len(case['events']):
        e = case['events'][step - 1]
        if e['a'] in ('write', 'cli'):
            return e['a'] + ':' + e.get('fmt', e.get('src', '')) + ('+lig' if e.get('lig') == 'T' else '')
        if e['a'] == 'binarize':
            m = e['mode']
            return 'binarize:' + ('markov' + ('+nofanout' if m['nofanout'] == 'T' else '') if m['markov'] == 'T' else 'det')
        return e['a']
    return '*'


def collision_tree():
    """a word spelled like a category whose tag is the category of a unary node over that category:
    (VROOT (A (B (T w1))) (A B)) - with lex_in_grammar the lexical production A -> B coincides with the rule A -> B"""
    def n(y, d, tok, lab, word='~'):
        return {'y': y, 'd': d, 'tok': tok, 'a': treeio.attr(lab=lab, word=word, edge='--', lemma='--', morph='--')}
    return {'n': 2, 'nodes': [n([1, 2], 0, False, 'VROOT'), n([1], 1, False, 'A'), n([1], 2, False, 'B'),
                              n([1], 3, True, 'T', 'w1'), n([2], 1, True, 'A', 'B')]}


def comb_tree(k):
    """B covers the odd positions of 2k-1 tokens (k blocks), the even tokens hang below the root"""
    n = 2 * k - 1
    nodes = [{'y': list(range(1, n + 1)), 'd': 0, 'tok': False, 'a': treeio.attr(lab='VROOT', edge='--', lemma='--', morph='--')},
             {'y': list(range(1, n + 1, 2)), 'd': 1, 'tok': False, 'a': treeio.attr(lab='B', edge='--', lemma='--', morph='--')}]
    for p in range(1, n + 1):
        nodes.append({'y': [p], 'd': 2 if p % 2 == 1 else 1, 'tok': True,
                      'a': treeio.attr(lab='T', word='w%d' % p, edge='--', lemma='--', morph='--')})
    return {'n': n, 'nodes': nodes}


def run(prop, tier, seed, replay=None):
    mods = treeio.repo_modules()
    rep = core.Report(prop, tier, seed)
    want = (lambda c: c.startswith(prop + '.'))
    with core.Work('gr') as w:
        core.gen_module(w, 'MCB', ['MC_Binarize'],
                        {'c_Modes': core.Raw('{' + ', '.join(core.tla(mode_tla(fg.MODES[m])) for m in MC_MODES) + '}')})
        for m in ('MC_Extract', 'MCB', 'Trace_Grammar'):
            core.sany(w, m)
        cases = []
        if replay:
            cases = [json.load(open(replay))['case']]
        else:
            todo_tb, todo_rule = [], []
            rnd = random.Random(seed)
            if prop in ('C06', 'C08'):
                trees = []
                for b in EX_BOUNDS[tier]:
                    r = core.tlc(w, 'MC_Extract', CFG_EX % b, coverage=True, timeout=3000)
                    core.tlc_ok(r, 'MC_Extract')
                    rep.add_mc('MC_Extract %s' % json.dumps(b, sort_keys=True), r,
                               'all trees, labels {A,B}: instantiation, fan-out, counts, flow, context-free iff continuous')
                    trees.extend(c['tree'] for c in r.cases)
                if len(trees) > 150000:
                    # TLC has checked the reference extraction on every tree; the replay on the real code takes a
                    # seeded sample of them (memory and time of the harness, not of the model checker)
                    rep.extra['replay_sampled'] = {'trees_enumerated': len(trees), 'trees_replayed': 150000}
                    trees = rnd.sample(trees, 150000)
                # the tree the bracket reader delivers for a one-token sentence without a wrapping root, `(A w)`:
                # a single node that is root and token at once
                trees[0:0] = [{'n': 1, 'nodes': [{'y': [1], 'd': 0, 'tok': True,
                                                  'a': treeio.attr(lab=lb, word='w1', lemma='--', morph='--', edge='--')}]}
                              for lb in ('A', 'B')]
                modes = ALL_MODES if prop == 'C08' else []
                for k, T in enumerate(trees):       # every tree once alone ...
                    todo_tb.append(('E-%06d' % k, [T], modes[k % len(modes):k % len(modes) + 2] if modes else [], None, seed + k))
                for k in range(len(trees) // 2):      # ... and in treebanks of 2..3 (repeated rules, counts > 1)
                    Ts = [rnd.choice(trees) for _ in range(rnd.randint(2, 3))]
                    if rnd.random() < 0.5:
                        Ts.append(Ts[0])
                    todo_tb.append(('B-%06d' % k, Ts, [rnd.choice(modes), rnd.choice(modes)] if modes else [], None, seed + k))
            todo_files = []
            if prop == 'C08':
                # "every grammar produced" includes the files: counts as a reader of the written grammar sees them
                nf = 150 if tier == 'quick' else 600
                for k in range(nf):
                    Ts = [rnd.choice(trees) for _ in range(rnd.randint(2, 3))]
                    if k % 3 == 0:
                        # (every third treebank continuous: LoPar output; few labels and unary chains: X -> X)
                        Ts = [treeio.random_tree(rnd, nmax=8, maxcons=6, labels=('A', 'B', 'NP'), tags=('T', 'A'), chain=0.5,
                                                 disc=0.0 if k % 2 == 1 else 0.5)
                              for _ in range(rnd.randint(2, 3))]
                    bm = None if k % 2 == 0 else rnd.choice(ALL_MODES)
                    todo_files.append(('F-%05d' % k, Ts, bm, None, seed + k, False))
                for j, bm_ in enumerate([None] + ALL_MODES[:2]):
                    todo_files.append(('F-8%04d' % j, [collision_tree(), collision_tree()], bm_, None, seed + j, False))
            if prop == 'C09':
                trees = []
                for b in EX_BOUNDS[tier]:
                    r = core.tlc(w, 'MC_Extract', CFG_EX % b, coverage=True, timeout=3000)
                    core.tlc_ok(r, 'MC_Extract')
                    rep.add_mc('MC_Extract %s' % json.dumps(b, sort_keys=True), r, 'trees whose grammars are written')
                    trees.extend(c['tree'] for c in r.cases)
                nf = 400 if tier == 'quick' else 4000
                for k in range(nf):
                    Ts = [rnd.choice(trees) for _ in range(rnd.randint(1, 3))]
                    if k % 3 == 0:
                        Ts = [treeio.random_tree(rnd, nmax=8, maxcons=6, labels=('A', 'B', 'NP'), tags=('T', 'A'), chain=0.3)
                              for _ in range(rnd.randint(1, 3))]
                    bm = None if k % 2 == 0 else rnd.choice(ALL_MODES)
                    todo_files.append(('F-%05d' % k, Ts, bm, None, seed + k, k % 8 == 0))
                # fan-outs of two digits (the fan-out is a suffix of the RCG predicate names): a constituent with
                # 9, 10, 12 blocks
                for j, bm_ in enumerate([None] + ALL_MODES[:2]):
                    todo_files.append(('F-8%04d' % j, [collision_tree(), collision_tree()], bm_, None, seed + j, j == 0))
                for j, kb in enumerate((9, 10, 12) if tier == 'quick' else (9, 10, 11, 12, 20)):
                    todo_files.append(('F-9%04d' % j, [comb_tree(kb), comb_tree(2)], None, None, seed + j, True))
            if prop in ('C07', 'C08'):
                for b in BIN_BOUNDS[tier]:
                    r = core.tlc(w, 'MCB', CFG_BIN % b, coverage=True, timeout=3000)
                    core.tlc_ok(r, 'MC_Binarize')
                    rep.add_mc('MC_Binarize %s' % json.dumps(b, sort_keys=True), r,
                               'all canonical LCFRS rules rank<=R, <=V variables x modes %s: chain composes, rank 2, unique labels' % MC_MODES)
                    seen = set()
                    for c in r.cases:
                        key = json.dumps(c, sort_keys=True)
                        if key in seen:
                            continue
                        seen.add(key)
                        if prop == 'C07':
                            todo_rule.append(('Q-%06d' % len(todo_rule), c['func'], c['lin'], ALL_MODES, None))
                    if prop == 'C07':
                        # one bare production with two or three linearizations in ONE grammar (a node label sequence that
                        # occurs once with a gap and once without): each is binarized on its own terms, in whatever
                        # order the dict holds them
                        by_func = {}
                        for key in sorted(seen):
                            c = json.loads(key)
                            by_func.setdefault(json.dumps(c['func']), []).append(c['lin'])
                        mcap = len(todo_rule) + (600 if tier == 'quick' else 1500)
                        for fkey in sorted(by_func):
                            # (rank <= 4, and a cap: the chain search of the trace specification over a grammar that
                            #  holds several chains of rank 5 with shared Markov labels ran for more than half an hour)
                            if len(json.loads(fkey)) - 1 > 4 or len(todo_rule) >= mcap:
                                continue
                            lins = by_func[fkey]
                            rnd.shuffle(lins)
                            i = 0
                            while i + 1 < len(lins):
                                k_ = 3 if (i // 2) % 3 == 2 and i + 2 < len(lins) else 2
                                todo_rule.append(('M-%06d' % len(todo_rule), json.loads(fkey), {'lins': lins[i:i + k_]},
                                                  ALL_MODES, None))
                                i += k_
            rep.exhaustive = True
            nrand = 0 if prop == 'C09' else (200 if tier == 'quick' else 2500)
            for k in range(nrand):
                Ts = [treeio.random_tree(rnd, nmax=7 if tier == 'quick' else 9, maxcons=6, labels=('A', 'B', 'NP'),
                                         tags=('T', 'A'), chain=0.3) for _ in range(rnd.randint(1, 3))]
                if rnd.random() < 0.4:
                    Ts.append(Ts[0])
                modes = [] if prop == 'C06' else [rnd.choice(ALL_MODES) for _ in range(3)]
                todo_tb.append(('R-%05d' % k, Ts, modes, None, seed + k, 'random'))
            cases = core.pmap(fg.record_treebank_case, todo_tb) + core.pmap(fg.record_rule_case, todo_rule) \
                + core.pmap(fg.record_files_case, todo_files, chunksize=8)
        if not replay:
            for c in cases:
                c['props'] = [prop]
        byid = {c['id']: c for c in cases}
        verdicts, wall = core.validate_traces(w, 'Trace_Grammar', cases, cfg=TRACE_CFG, chunk=400)
        rep.extra['trace_validation_wall_s'] = round(wall, 1)
        rep.judge(byid, verdicts, site_of=site_of, clause_filter=want)
        rep.rule = ('TLC enumerates trees (labels from a 2-letter alphabet so rules repeat) / all canonical LCFRS rules '
                    'within the bounds and checks the reference extraction / chain construction; each tree (alone and in '
                    'treebanks of 2-4 with repetitions) and each rule is given to the real extract/binarize in every mode; '
                    'TLC validates the dumped grammar dicts. non-trivial = some rule has count > 1, fan-out > 1 or rank > 2')
        rep.samples = [cases[len(cases) // 3], cases[-1]] if cases else []
        rep.assumptions = ['TLC, SANY, CommunityModules Json/Bags', 'mechanical dump of the nested grammar dicts']
        return rep.finish(byid)

"""child process for C18: the conversion `treetools transform SRC DEST ...` composed by hand from the public
API (reader -> transformations in order, each applied to what the previous one returned -> writer with its
begin/end), in a fresh interpreter.  Prints the lines of the file it writes as JSON.
usage: python -m harness.api_conv  < {"src":..,"srcfmt":..,"destfmt":..,"trans":[..],"params":{..},"srcopts":{..},"destopts":{..}}"""
import io
import json
import sys


def main():
    a = json.loads(sys.stdin.read())
    from trees import treeinput, treeoutput, transform
    out = io.StringIO()
    err = io.StringIO()
    real_out, real_err = sys.stdout, sys.stderr
    sys.stdout, sys.stderr = err, err
    try:
        getattr(treeoutput, a['destfmt'] + '_begin')(out, **a['destopts'])
        for tree in getattr(treeinput, a['srcfmt'])(a['src'], 'utf-8', **a['srcopts']):
            for name in a['trans']:
                tree = getattr(transform, name)(tree, **a['params'])
                if tree is None:
                    break
            if tree is not None:
                getattr(treeoutput, a['destfmt'])(tree, out, **a['destopts'])
        getattr(treeoutput, a['destfmt'] + '_end')(out, **a['destopts'])
        res = {'ok': True, 'lines': out.getvalue().split('\n')}
    except Exception as ex:
        res = {'ok': False, 'lines': ['<raised %s>' % type(ex).__name__]}
    finally:
        sys.stdout, sys.stderr = real_out, real_err
    print(json.dumps(res))


if __name__ == '__main__':
    main()

"""Entry point: ./check <Cxx> [--tier quick|thorough] [--replay PATH] | setup"""
import argparse
import os
import sys
import traceback

from . import core


def main():
    ap = argparse.ArgumentParser()
    ap.add_argument('what')
    ap.add_argument('--tier', default=os.environ.get('VERIF_TIER', 'quick'),
                    choices=['quick', 'thorough'])
    ap.add_argument('--replay', default=None)
    ap.add_argument('--keep', action='store_true', help='keep work directory')
    args = ap.parse_args()
    seed = int(os.environ.get('VERIF_SEED', '0') or 0)
    try:
        from . import checks
        if args.what == 'setup':
            sys.exit(checks.setup())
        if args.what == 'selftest':
            sys.exit(checks.selftest())
        if args.what not in checks.CHECKS:
            print('unknown check %s' % args.what, file=sys.stderr)
            sys.exit(2)
        rc = checks.CHECKS[args.what](args.what, args.tier, seed, replay=args.replay)
        sys.exit(rc)
    except core.MachineryError as ex:
        print('MACHINERY-ERROR: %s' % ex, file=sys.stderr)
        sys.exit(2)
    except SystemExit:
        raise
    except Exception:
        traceback.print_exc()
        print('MACHINERY-ERROR: harness exception', file=sys.stderr)
        sys.exit(2)


if __name__ == '__main__':
    main()

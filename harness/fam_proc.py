"""C18: histories of calls in one process versus every call in a fresh process;
concatenation / sum over corpora; repeated runs under different hash seeds."""
import contextlib
import io
import json
import os
import random
import subprocess
import sys
import tempfile
import shutil

from . import core, treeio, fam_io, fam_grammar, fam_cli

ch = treeio.chars
CONTENTS = {'k1': [(1, 2, 'x', 'NEW'), (2, 1, 'y', 'NEU')], 'k2': [(1, 1, 'z', 'ZZ'), (2, 3, 'q', 'QQ')]}


def _fixed_tree():
    """(VROOT (S (PP-MO-1 (APPR von) (IN of) (NN haus)) (VP#X (VVFIN geht) (, ,))) (NP-SBJ (NN w5)))
    categories on which the two head-rule presets disagree, labels with functions under both separators"""
    def n(y, d, tok, lab, word='~', edge='--'):
        return {'y': y, 'd': d, 'tok': tok, 'a': treeio.attr(lab=lab, word=word, edge=edge, lemma='--', morph='--')}
    nodes = [n([1, 2, 3, 4, 5, 6], 0, False, 'VROOT'), n([1, 2, 3, 4, 5], 1, False, 'S'), n([6], 1, False, 'NP-SBJ'),
             n([1, 2, 3], 2, False, 'PP-MO-1', edge='HD'), n([4, 5], 2, False, 'VP#X'),
             n([1], 3, True, 'APPR', 'von'), n([2], 3, True, 'IN', 'of'), n([3], 3, True, 'NN', 'haus', 'HD'),
             n([4], 3, True, 'VVFIN', 'geht', 'HD'), n([5], 3, True, '$,', ','), n([6], 2, True, 'NN', 'w6')]
    return {'n': 6, 'nodes': nodes}


def tree_of(sent):
    if sent == 1:
        T = _fixed_tree()
        for x in T['nodes']:
            a = x['a']
            for fld in ('lab', 'edge', 'lemma', 'morph', 'word'):
                a[fld] = ch(a[fld]) if a[fld] != '~' else ['~~']
        return T
    rnd = random.Random(100 + sent)
    T = treeio.random_tree(rnd, nmax=5, maxcons=4, labels=('S', 'NP-SBJ', 'VP', 'PP#MO', 'NP-OA-1', 'PP'),
                           edges=('HD', '--', 'NK'), tags=('NN', 'VB', 'IN', 'APPR', 'ART-X'), tokedges=('--', 'HD'), chain=0.3,
                           words=lambda r, p: r.choice(['w%d' % p, ',', 'a&b', u'Üx']))
    if T['n'] < 3:
        return tree_of(sent + 17)
    for x in T['nodes']:
        a = x['a']
        for fld in ('lab', 'edge', 'lemma', 'morph', 'word'):
            a[fld] = ch(a[fld]) if a[fld] != '~' else ['~~']
        if not x['tok']:
            a['lemma'], a['morph'] = ch('--'), ch('--')
    return T


def exec_call(call, tmpdir):
    """runs one concrete call on fresh inputs; returns a JSON-able result"""
    mods = treeio.repo_modules()
    op, sent = call['op'], call['sent']
    T = tree_of(sent)
    root = treeio.build(T, mods, None, random.Random(sent), all_chars=True)
    root.data['sid'] = sent
    out = io.StringIO()

    def graph(r):
        return treeio.Dumper(treeio.IDENT, all_chars=True).dump(r)
    with contextlib.redirect_stdout(out), contextlib.redirect_stderr(io.StringIO()):
        if op in ('insert_terminals', 'substitute_terminals'):
            fn = os.path.join(tmpdir, call['file'] + '.txt')
            if not os.path.exists(fn):
                with open(fn, 'w') as f:
                    for (sid, idx, w, t) in CONTENTS[call['rows']]:
                        f.write('%d %d %s %s\n' % (sid, idx, w, t))
            r = getattr(mods['transform'], op)(root, terminalfile=fn, quiet=True)
            return {'g': graph(r)}
        if op == 'read':
            text = fam_io.render_export(T, sent, False, random.Random(1)) + \
                fam_io.render_export(tree_of(3 - sent), 3 - sent, False, random.Random(2))
            fn = os.path.join(tmpdir, 'corpus_%d_%d.export' % (sent, os.getpid()))
            with open(fn, 'w', encoding='utf-8') as f:
                f.write(text)
            evs = fam_io.run_reader(mods, 'export', fn, 'utf-8', {'quiet': True})
            os.unlink(fn)
            return {'events': [e if e['a'] != 'eof' else {'a': 'eof'} for e in evs]}
        if op in ('read_gf_dash', 'read_gf_hash'):
            text = fam_io.render_export(T, sent, False, random.Random(1))
            fn = os.path.join(tmpdir, 'gf_%d_%d.export' % (sent, os.getpid()))
            with open(fn, 'w', encoding='utf-8') as f:
                f.write(text)
            params = {'quiet': True, 'gf_split': True}
            if op.endswith('hash'):
                params['gf_separator'] = '#'
            evs = fam_io.run_reader(mods, 'export', fn, 'utf-8', params)
            os.unlink(fn)
            return {'events': [e if e['a'] != 'eof' else {'a': 'eof'} for e in evs]}
        if op in ('heads_negra', 'heads_ptb'):
            r = mods['transform'].mark_heads_by_rules(root, mark_heads_preset=op.split('_')[1])
            return {'g': graph(r)}
        if op == 'ptb_delete_traces':
            r = mods['transform'].ptb_delete_traces(root)
            return {'g': graph(r)}
        if op == 'write_brackets_gf':
            tf = mods['transform']
            r = tf.raising(tf.boyd_split(tf.negra_mark_heads(root)))
            return {'text': fam_io.run_writer(mods, 'brackets', ['gf', 'mark_heads_marking'], '#', r).split('\n')}
        if op == 'write':
            return {'text': fam_io.run_writer(mods, call.get('fmt', 'export'), [], '-', root).split('\n')}
        if op in ('extract', 'binarize'):
            gram, lex = {}, {}
            mods['grammar'].extract(root, gram, lex)
            if op == 'binarize':
                gram = fam_grammar.call_binarize(mods, gram, fam_grammar.MODES['mk-none-1-2'])
            return {'gram': fam_grammar.dump_gram(gram), 'lex': fam_grammar.dump_lex(lex, treeio.IDENT)}
        if op in ('gram_cmd_mk1', 'gram_cmd_mk2'):
            # the grammar COMMAND (argparse + run()) inside this process, with different --markov options
            import argparse
            src = os.path.join(tmpdir, 'gc_%d_%d.export' % (sent, os.getpid()))
            dest = os.path.join(tmpdir, 'gc_out_%d' % os.getpid())
            with open(src, 'w', encoding='utf-8') as f:
                f.write(fam_io.render_export(T, sent, False, random.Random(1)))
            parser = argparse.ArgumentParser()
            sub = parser.add_subparsers(dest='subparser_name')
            mods['grammar'].add_parser(sub)
            argv = ['grammar', src, dest, 'leftright', '--dest-format', 'rcg', '--markov'] + \
                (['v:2', 'h:1', 'nofanout'] if op.endswith('mk1') else ['h:2'])
            args = parser.parse_args(argv)
            try:
                args.func(args)
            except SystemExit:
                pass
            res = {}
            for ext in ('rcg', 'lex'):
                pth = dest + '.' + ext
                res[ext] = sorted(open(pth, encoding='utf-8').read().split('\n')) if os.path.exists(pth) else ['<missing>']
                if os.path.exists(pth):
                    os.unlink(pth)
            os.unlink(src)
            return res
        if op == 'boyd_split':
            tf = mods['transform']
            r = tf.raising(tf.boyd_split(tf.negra_mark_heads(root)))
            return {'g': graph(r)}
        if op == 'binarize_tree':
            tf = mods['transform']
            r = tf.binarize(tf.negra_mark_heads(root))
            return {'g': graph(r)}
        if op == 'punctuation_delete':
            r = mods['transform'].punctuation_delete(root, quiet=True)
            return {'g': graph(r), 'printed': out.getvalue().split('\n')}
        if op == 'analysis':
            ta = mods['treeanalysis']
            res = []
            for task in (ta.GapDegree, ta.PosTags, ta.SentenceCount):
                t = task()
                t.run(root)
                t.done()
            return {'printed': out.getvalue().split('\n')}
    raise ValueError(op)


def fresh_result(call):
    """the same call in a fresh interpreter process"""
    tmp = tempfile.mkdtemp(prefix='vf_pf_')
    try:
        p = subprocess.run([sys.executable, '-m', 'harness.proc_child', tmp], input=json.dumps(call).encode(),
                           cwd=core.VERIF, stdout=subprocess.PIPE, stderr=subprocess.PIPE,
                           env=dict(os.environ, TREETOOLS_REPO=core.REPO, PYTHONHASHSEED='0'))
        if p.returncode != 0:
            return {'child_failed': p.stderr.decode('utf-8', 'replace')[-300:]}
        return json.loads(p.stdout.decode())
    finally:
        shutil.rmtree(tmp, ignore_errors=True)


_FRESH = {}


def record_history_case(cid, hist, files, fresh_table, origin='tlc'):
    """hist: list of abstract calls [op, file, sent]; files: name -> content id"""
    tmp = tempfile.mkdtemp(prefix='vf_ph_')
    events = []
    try:
        for c in hist:
            call = {'op': c['op'], 'file': c['file'], 'sent': c['sent'],
                    'rows': files.get(c['file'], '~') if c['file'] != '~' else '~'}
            try:
                out = exec_call(call, tmp)
            except Exception as ex:
                out = {'exc': type(ex).__name__ + ': ' + str(ex)[:100]}
            key = json.dumps(call, sort_keys=True)
            events.append({'a': 'call', 'op': call['op'], 'file': call['file'], 'sent': call['sent'],
                           'rows': call['rows'], 'out': out, 'fresh': fresh_table[key], 'setlike': 'F'})
    finally:
        shutil.rmtree(tmp, ignore_errors=True)
    return {'id': cid, 'origin': origin, 'events': events}


# ---- CLI level: concatenation, sums, repeated runs --------------------------------
def cli_lines(args, cwd, outnames, hashseed='0', enc='utf-8'):
    rc, out, err = fam_cli.treetools(args, cwd, env={'PYTHONHASHSEED': hashseed})
    res = {'rc': [str(rc)], 'stdout': out.split('\n')}
    for n in outnames:
        p = os.path.join(cwd, n)
        res[n] = open(p, encoding=enc).read().split('\n') if os.path.exists(p) else ['<missing>']
    return res


def record_cli_case(cid, seed, origin='random'):
    rnd = random.Random(seed)
    mods = treeio.repo_modules()
    tmp = tempfile.mkdtemp(prefix='vf_pc_')
    events = []
    try:
        def corpus(k0, n):
            return [tree_of(k0 + i) for i in range(n)]
        A, B = corpus(rnd.randint(1, 40), rnd.randint(1, 3)), corpus(rnd.randint(41, 80), rnd.randint(1, 3))

        # A may be an export 4 treebank with its header, B a headerless export 3 one; AB is `cat A B`
        a_four = rnd.random() < 0.4

        def text(Ts, s0, four):
            return ('%% treebank A\n#FORMAT 4\n#BOT ORIGIN\n#EOT ORIGIN\n' if four else '') + \
                ''.join(fam_io.render_export(T, s0 + i, four, random.Random(i)) for i, T in enumerate(Ts))

        def write(name, txt):
            with open(os.path.join(tmp, name), 'w', encoding='utf-8') as f:
                f.write(txt)
        write('A.export', text(A, 1, a_four))
        write('B.export', text(B, 1 + len(A), False))
        write('AB.export', text(A, 1, a_four) + text(B, 1 + len(A), False))
        trans = rnd.choice([[], ['root_attach', 'negra_mark_heads', 'boyd_split', 'raising'], ['punctuation_root'],
                            ['negra_mark_heads', 'binarize', 'collapse_unary_chains']])
        destfmt = rnd.choice(['export', 'discobrackets', 'tigerxml', 'terminals'])
        if 'raising' in trans and rnd.random() < 0.5:
            destfmt = 'brackets'

        def conv(src, dest, hs='0'):
            a = ['transform', src, dest, '--dest-format', destfmt] + (['--trans'] + trans if trans else [])
            return cli_lines(a, tmp, [dest], hs)
        ra, rb, rab = conv('A.export', 'A.out'), conv('B.export', 'B.out'), conv('AB.export', 'AB.out')
        if destfmt != 'tigerxml':
            events.append({'a': 'concat', 'kind': 'seq', 'setlike': 'F', 'what': 'transform ' + destfmt,
                           'a_': [x for x in ra['A.out'] if x != ''], 'b_': [x for x in rb['B.out'] if x != ''],
                           'ab': [x for x in rab['AB.out'] if x != '']})
        # the driver adds nothing of its own: the file equals what the same reader, transformations (each applied
        # to what the previous one returned) and writer give when composed by hand through the API
        import json as _json
        import subprocess as _sp
        pa = _sp.run([core.VENV_PY, '-m', 'harness.api_conv'], cwd=tmp,
                     env=dict(os.environ, PYTHONPATH=core.VERIF + os.pathsep + core.REPO, PYTHONHASHSEED='0',
                              PYTHONDONTWRITEBYTECODE='1'),
                     input=_json.dumps({'src': os.path.join(tmp, 'AB.export'), 'srcfmt': 'export', 'destfmt': destfmt,
                                        'trans': trans, 'params': {}, 'srcopts': {}, 'destopts': {}}).encode(),
                     stdout=_sp.PIPE, stderr=_sp.PIPE)
        try:
            api_lines = _json.loads(pa.stdout.decode())['lines']
        except Exception:
            api_lines = ['<api composition failed: %s>' % pa.stderr.decode('utf-8', 'replace')[-200:]]
        if destfmt != 'tigerxml':      # (its XML declaration names the encoding the command line was given)
            events.append({'a': 'repeat', 'setlike': 'F', 'what': 'transform %s: command line vs API composition' % destfmt,
                           'out1': rab['AB.out'], 'out2': api_lines})
        # --split: the parts, in order, are the unsplit output (every sentence transformed as without --split)
        if destfmt != 'tigerxml':
            spec = rnd.choice(['1#_rest', '50%_50%', 'rest_1#'])
            a = ['transform', 'AB.export', 'ABs.out', '--dest-format', destfmt, '--split', spec] \
                + (['--trans'] + trans if trans else [])
            rs = cli_lines(a, tmp, ['ABs.out.0', 'ABs.out.1'])
            events.append({'a': 'concat', 'kind': 'seq', 'setlike': 'F', 'what': 'transform --split %s %s' % (spec, destfmt),
                           'a_': [x for x in rs['ABs.out.0'] if x != ''], 'b_': [x for x in rs['ABs.out.1'] if x != ''],
                           'ab': [x for x in rab['AB.out'] if x != '']})
        # a decorated label that recurs from sentence to sentence, read with gf_split and then binarized: what
        # the reader yields for the second sentence must not depend on what was done to the first one
        def sent(sid, w):
            return ('#BOS %d\n%s1\t\t\tNN\t--\t\tHD\t500\n%s2\t\t\tNN\t--\t\t--\t500\n%s3\t\t\tNN\t--\t\t--\t500\n'
                    '%s4\t\t\tVB\t--\t\tHD\t501\n#500\t\t\tNP-1\t--\t\tOA\t501\n#501\t\t\tS=2\t--\t\t--\t0\n#EOS %d\n'
                    % (sid, w, w, w, w, sid))
        write('LA.export', sent(1, 'a'))
        write('LB.export', sent(2, 'b'))
        write('LAB.export', sent(1, 'a') + sent(2, 'b'))

        def lconv(src, dest):
            a = ['transform', src, dest, '--src-opts', 'gf_split', '--trans', 'negra_mark_heads', 'binarize',
                 '--dest-format', 'export']
            return cli_lines(a, tmp, [dest])
        la, lb, lab_ = lconv('LA.export', 'LA.out'), lconv('LB.export', 'LB.out'), lconv('LAB.export', 'LAB.out')
        events.append({'a': 'concat', 'kind': 'seq', 'setlike': 'F', 'what': 'gf_split + binarize, recurring decorated label',
                       'a_': [x for x in la['LA.out'] if x != ''], 'b_': [x for x in lb['LB.out'] if x != ''],
                       'ab': [x for x in lab_['LAB.out'] if x != '']})
        # directory mode with a terminal file: two files whose sentences have the same id but different lengths;
        # each file's result must be what the file gives when converted alone (a row that is out of range for
        # one sentence is still due for the other)
        def flat(sid, n, w):
            return '#BOS %d\n' % sid + ''.join('%s%d\t\t\tNN\t--\t\t--\t0\n' % (w, i) for i in range(1, n + 1)) + '#EOS %d\n' % sid
        write('terms.txt', '1 5 sehr ADV\n1 1 ganz ADV\n')
        for tag, (n1, n2) in (('sl', (2, 6)), ('ls', (6, 2))):
            dd = 'dir_' + tag
            os.mkdir(os.path.join(tmp, dd))
            write(dd + '/f1.export', flat(1, n1, 'a'))
            write(dd + '/f2.export', flat(1, n2, 'b'))
            tp = ['--trans', 'insert_terminals', '--params', 'terminalfile:terms.txt', 'quiet']
            cli_lines(['transform', dd, 'unused'] + tp, tmp, [])
            both = []
            for fn in ('f1.export', 'f2.export'):
                pth = os.path.join(tmp, dd, fn + '.dest')
                both.append(open(pth, encoding='utf-8').read().split('\n') if os.path.exists(pth) else ['<missing>'])
            alone = [cli_lines(['transform', dd + '/' + fn, '%s_%s.out' % (tag, fn)] + tp, tmp, ['%s_%s.out' % (tag, fn)])
                     ['%s_%s.out' % (tag, fn)] for fn in ('f1.export', 'f2.export')]
            events.append({'a': 'concat', 'kind': 'seq', 'setlike': 'F', 'what': 'directory mode, insert_terminals, same sentence id (%s)' % tag,
                           'a_': [x for x in alone[0] if x != ''], 'b_': [x for x in alone[1] if x != ''],
                           'ab': [x for x in both[0] + both[1] if x != '']})
        r2 = conv('AB.export', 'AB2.out', hs=str(rnd.randint(1, 999)))
        events.append({'a': 'repeat', 'setlike': 'F', 'what': 'transform ' + destfmt,
                       'out1': rab['AB.out'], 'out2': r2['AB2.out']})
        # trace deletion with slash annotation: several co-indices on a shared path, different hash seeds
        with open(os.path.join(tmp, 'ptb.brackets'), 'w', encoding='utf-8') as f:
            f.write('( (S (NP-1 (NN w1)) (PP-2 (IN w2)) (ADVP-3 (RB w9)) (VP (VB w3) (NP (-NONE- *T*-1)) '
                    '(PP (-NONE- *T*-2)) (ADVP (-NONE- *T*-3)))) )\n'
                    '( (S (NP-2 (NN a)) (VP (VB b) (NP (-NONE- *T*-2)) (PP-1 (IN c)) (SBAR (PP (-NONE- *T*-1))))) )\n')

        def slash(dest, hs):
            a = ['transform', 'ptb.brackets', dest, '--src-format', 'brackets', '--dest-format', 'brackets',
                 '--trans', 'ptb_delete_traces', '--params', 'keepall', 'slash']
            return cli_lines(a, tmp, [dest], hs)
        s0 = slash('ptb0.out', '0')
        for hs in (str(rnd.randint(1, 9999)), str(rnd.randint(1, 9999)), str(rnd.randint(1, 9999))):
            events.append({'a': 'repeat', 'setlike': 'F', 'what': 'ptb_delete_traces keepall slash', 'hashseed': hs,
                           'out1': s0['ptb0.out'], 'out2': slash('ptb_%s.out' % hs, hs)['ptb_%s.out' % hs]})
        # co-indexed labels that RECUR from sentence to sentence (the same WHNP-1 ... *T*-1 in every sentence), under the
        # trace-deletion variants that read the co-index (slash annotation, keepcoindex) and next to binarization,
        # which edits the label objects it parses: what sentence 2 gets must not depend on sentence 1 having been there
        def ptbsent(ws):
            return ('( (SBARQ (WHNP-1 (WP %s)) (SQ-2 (VBD %s) (NP-SBJ (NNP %s)) (ADVP-3 (RB %s)) (VP (VB %s) (NP (-NONE- *T*-1)) '
                    '(ADVP (-NONE- *T*-3)))) (. ?)) )\n' % tuple(ws))
        pa_, pb_ = ptbsent(['who', 'did', 'Fritz', 'often', 'tell']), ptbsent(['what', 'has', 'Hans', 'never', 'seen'])
        write('PA.brackets', pa_)
        write('PB.brackets', pb_)
        write('PAB.brackets', pa_ + pb_)
        for what, tp in (('ptb_delete_traces slash', ['--trans', 'ptb_delete_traces', '--params', 'slash']),
                         ('ptb_delete_traces keepall slash', ['--trans', 'ptb_delete_traces', '--params', 'keepall', 'slash']),
                         ('ptb_delete_traces keepcoindex; binarize',
                          ['--trans', 'ptb_delete_traces', 'negra_mark_heads', 'binarize', '--params', 'keepcoindex']),
                         ('binarize; ptb_delete_traces keepcoindex',
                          ['--trans', 'negra_mark_heads', 'binarize', 'ptb_delete_traces', '--params', 'keepcoindex'])):
            def pconv(src, dest):
                a = ['transform', src, dest, '--src-format', 'brackets', '--dest-format', 'brackets'] + tp
                return [x for x in cli_lines(a, tmp, [dest])[dest] if x != '']
            events.append({'a': 'concat', 'kind': 'seq', 'setlike': 'F', 'what': what + ', recurring co-indexed labels',
                           'a_': pconv('PA.brackets', 'PA.out'), 'b_': pconv('PB.brackets', 'PB.out'),
                           'ab': pconv('PAB.brackets', 'PAB.out')})
        # grammar: sums
        gt = rnd.choice(['treebank', 'leftright', 'optimal'])
        mk = rnd.choice([[], ['--markov', 'v:1', 'h:2'], ['--markov', 'v:2', 'h:1', 'nofanout']]) if gt != 'treebank' else []

        def gram(src, dest, hs='0'):
            cli_lines(['grammar', src, dest, gt] + mk, tmp, [], hs)
            recs = fam_grammar.pmcfg_records(os.path.join(tmp, dest + '.pmcfg'), treeio.IDENT) \
                if os.path.exists(os.path.join(tmp, dest + '.pmcfg')) else []
            lex = open(os.path.join(tmp, dest + '.lex'), encoding='utf-8').read().split('\n') \
                if os.path.exists(os.path.join(tmp, dest + '.lex')) else ['<missing>']
            return recs, lex
        if gt == 'treebank' or not mk:
            pass
        ga, la = gram('A.export', 'gA')
        gb, lb = gram('B.export', 'gB')
        gab, lab = gram('AB.export', 'gAB')

        def lexpairs(lines):
            out = []
            for ln in lines:
                t = ln.split()
                for i in range(1, len(t) - 1, 2):
                    out.append({'k': [t[0], t[i]], 'n': int(t[i + 1]) if t[i + 1].isdigit() else -1})
            return out
        events.append({'a': 'concat', 'kind': 'sum', 'setlike': 'T', 'what': 'lexicon %s' % gt,
                       'a_': lexpairs(la), 'b_': lexpairs(lb), 'ab': lexpairs(lab)})
        if gt == 'treebank' or mk:
            # (Markovization labels depend on the rule and its context only, so those grammars add up as well;
            #  the numbered labels of deterministic binarization do not)
            events.append({'a': 'concat', 'kind': 'sum', 'setlike': 'T', 'what': 'grammar %s %s' % (gt, ' '.join(mk)),
                           'a_': rules_of(ga), 'b_': rules_of(gb), 'ab': rules_of(gab)})
        g2, l2 = gram('AB.export', 'gAB2', hs=str(rnd.randint(1, 999)))
        events.append({'a': 'repeat', 'setlike': 'T', 'what': 'grammar %s %s' % (gt, mk), 'out1': rules_of(gab), 'out2': rules_of(g2)})
        events.append({'a': 'repeat', 'setlike': 'T', 'what': 'lexicon', 'out1': lab, 'out2': l2})
        # analysis: statistics are sums
        task = rnd.choice(['GapDegree', 'PosTags', 'SentenceCount'])

        def ana(src, hs='0'):
            return cli_lines(['treeanalysis', src, task], tmp, [], hs)['stdout']
        events.append({'a': 'repeat', 'setlike': 'F', 'what': 'treeanalysis ' + task, 'out1': ana('AB.export'),
                       'out2': ana('AB.export', hs=str(rnd.randint(1, 999)))})
        if task == 'GapDegree':
            # statistics of A+B are the sums of those of A and B (A may have the more discontinuous trees: a
            # statistic must not depend on what was seen before)
            import re as _re

            def gaps(lines):
                out, sec = [], None
                for ln in lines:
                    if ln.startswith('Per tree'):
                        sec = 'tree'
                    elif ln.startswith('Per node'):
                        sec = 'node'
                    mm = _re.match(r'Gap degree\s+(\d+):\s+(\d+) ', ln)
                    if mm and sec:
                        out.append({'k': '%s %s' % (sec, mm.group(1)), 'n': int(mm.group(2))})
                return out
            events.append({'a': 'concat', 'kind': 'sum', 'setlike': 'T', 'what': 'GapDegree statistics',
                           'a_': gaps(ana('A.export')), 'b_': gaps(ana('B.export')), 'ab': gaps(ana('AB.export'))})
        if task == 'SentenceCount':
            def num(lines):
                return [{'k': 'sentences', 'n': int(ln.split()[0])} for ln in lines if ln.endswith(' sentences')]
            events.append({'a': 'concat', 'kind': 'sum', 'setlike': 'T', 'what': 'SentenceCount',
                           'a_': num(ana('A.export')), 'b_': num(ana('B.export')), 'ab': num(ana('AB.export'))})
    finally:
        shutil.rmtree(tmp, ignore_errors=True)
    return {'id': cid, 'origin': origin, 'events': events}


def rules_of(recs):
    """(rule key, count) pairs of a PMCFG file, keyed by the rule text with shared ids resolved lexically"""
    seqs = {tuple(r['toks'][:1]): r['pairs'] for r in recs if len(r['toks']) >= 2 and r['toks'][1] == '->'}
    rule, lin, cnt = {}, {}, {}
    for r in recs:
        t = r['toks']
        if len(t) >= 4 and t[1] == ':':
            rule[t[0]] = t[2:]
        elif len(t) >= 2 and t[1] == '=':
            lin[t[0]] = [seqs.get((s,), []) for s in t[2:]]
        elif len(t) == 2 and r['cnt'] >= 0:
            cnt[t[0]] = r['cnt']
    agg = {}
    for f in rule:
        k = json.dumps([rule[f], lin.get(f)])
        agg[k] = agg.get(k, 0) + cnt.get(f, 0)
    return [{'k': k, 'n': n} for k, n in sorted(agg.items())]

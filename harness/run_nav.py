"""Checks C19 (navigation API) and C16 (gap degree) -- see DESIGN.md section 6."""
import json
import random

from . import core, treeio, fam_nav

CFG = """CONSTANTS N = %(N)d
 MaxCons = %(MaxCons)d
 MaxChain = %(MaxChain)d
INIT Init
NEXT Next
INVARIANT InvModelOK
INVARIANT Emit
CHECK_DEADLOCK FALSE
"""
BOUNDS = {'quick': [dict(N=4, MaxCons=5, MaxChain=2), dict(N=5, MaxCons=3, MaxChain=1)],   # (root + 2 constituents over 5 tokens: a node with two gaps inside a node with one)
          'thorough': [dict(N=5, MaxCons=6, MaxChain=2), dict(N=6, MaxCons=5, MaxChain=1)]}


def run(prop, tier, seed, replay=None):
    mods = treeio.repo_modules()
    rep = core.Report(prop, tier, seed)
    want = (lambda c: c.startswith(prop + '.') or c.startswith('wf.') or c.startswith('trace.'))
    with core.Work('nav') as w:
        core.sany(w, 'MC_Nav')
        core.sany(w, 'Trace_Nav')
        cases = []
        if replay:
            doc = json.load(open(replay))
            cases = [doc['case']] if 'case' in doc else doc['cases']
        else:
            seen = set()
            todo = []
            for b in BOUNDS[tier]:
                r = core.tlc(w, 'MC_Nav', CFG % b, coverage=True, timeout=3000)
                core.tlc_ok(r, 'MC_Nav %s' % b)
                rep.add_mc('MC_Nav %s' % json.dumps(b, sort_keys=True), r,
                           'all trees; ModelOK (reference answers satisfy every C19/C16 clause)')
                nperm = 2 if tier == 'quick' else 3
                for c in r.cases:
                    key = json.dumps(c['tree'], sort_keys=True)
                    if key in seen:
                        continue
                    seen.add(key)
                    for p in range(nperm):
                        cid = 'N-%06d-%d' % (len(seen), p)
                        todo.append((cid, c['tree'], None, seed * 1000003 + len(seen) * 7 + p, p > 0))
            # the one-node tree (root = token), which the bracket reader yields for `(TAG word)`
            one = {'n': 1, 'nodes': [{'y': [1], 'd': 0, 'tok': True,
                                      'a': treeio.attr(lab='T', word='w1', lemma='--', morph='--', edge='--')}]}
            todo.append(('N-one-0', one, None, seed * 1000003, False))
            todo.append(('N-one-1', one, None, seed * 1000003 + 4, False))
            cases.extend(core.pmap(fam_nav.record_case, todo))
            rep.exhaustive = True
            rnd = random.Random(seed)
            nrand = 300 if tier == 'quick' else 3000
            for k in range(nrand):
                T = treeio.random_tree(rnd, nmax=9 if tier == 'quick' else 12, maxcons=8)
                cases.append(fam_nav.record_case('R-%06d' % k, T, mods, seed + k, origin='random'))
        byid = {c['id']: c for c in cases}
        verdicts, wall = core.validate_traces(w, 'Trace_Nav', cases, chunk=600)
        rep.extra['trace_validation_wall_s'] = round(wall, 1)
        rep.judge(byid, verdicts, clause_filter=want)
        rep.rule = ('TLC enumerates every tree (laminar family with unary chains) within the bounds of '
                    'model_checking_runs; each is built through the tree API with children lists stored in '
                    'original and shuffled order, plus seeded random trees up to 9/12 tokens; every API '
                    'function is called on every node / node pair and the answers validated by TLC against '
                    'Nav.tla. non-trivial = tree with at least one constituent besides the root')
        rep.samples = [cases[len(cases) // 3], cases[-1]] if cases else []
        rep.assumptions = ['TLC, SANY, CommunityModules Json', 'harness graph dump (treeio.Dumper)']
        return rep.finish(byid)

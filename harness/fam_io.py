"""I/O families (C01 C02 C03 C17 C18): run the real readers / writers / command line
and split what they read or wrote into lexical records. No interpretation here."""
import contextlib
import io
import re
import xml.etree.ElementTree as ET

from . import treeio

ch = treeio.chars


def export_config(mods):
    trees = mods['trees']
    return {'brtab': [[ch(k), ch(v)] for k, v in trees.BRACKETS.items()]}


# ---- splitting written text into lexical records --------------------------------
def export_lines(text):
    out = []
    for ln in text.split('\n'):
        if ln.strip() == '':
            continue
        f = ln.split()
        w = f[0]
        wnum = int(w[1:]) if len(w) == 4 and w[0] == '#' and w[1:].isdigit() else -1
        out.append({'f': [ch(x) for x in f], 'n': [int(x) if x.isdigit() else -1 for x in f], 'wnum': wnum})
    return out


def bracket_tokens(text):
    toks, cur = [], ''
    for c in text:
        if c in '()':
            if cur:
                toks.append(ch(cur))
                cur = ''
            toks.append([c])
        elif c.isspace():
            if cur:
                toks.append(ch(cur))
                cur = ''
        else:
            cur += c
    if cur:
        toks.append(ch(cur))
    return toks


def terminals_lines(text, pairs):
    lines = text.split('\n')
    if lines and lines[-1] == '':
        lines = lines[:-1]
    out = []
    for ln in lines:
        toks = ln.split()
        if pairs:
            out.append([[ch(t.rpartition('/')[0]), ch(t.rpartition('/')[2])] for t in toks])
        else:
            out.append([ch(t) for t in toks])
    return out


def tiger_record(text):
    try:
        root = ET.fromstring(text.encode('utf-8'))
    except ET.ParseError:
        return {'ok': 'F', 'sents': []}
    sents = []
    body = root.find('body')
    for s in (body.findall('s') if body is not None else []):
        g = s.find('graph')
        terms, nts = [], []
        if g is not None and g.find('terminals') is not None:
            for t in g.find('terminals').findall('t'):
                terms.append({'id': ch(t.get('id')), 'word': ch(t.get('word')), 'lemma': ch(t.get('lemma')),
                              'pos': ch(t.get('pos')), 'morph': ch(t.get('morph'))})
        if g is not None and g.find('nonterminals') is not None:
            for nt in g.find('nonterminals').findall('nt'):
                nts.append({'id': ch(nt.get('id')), 'cat': ch(nt.get('cat')),
                            'edges': [{'label': ch(e.get('label')), 'idref': ch(e.get('idref'))}
                                      for e in nt.findall('edge')]})
        sents.append({'id': ch(s.get('id')), 'root': ch(g.get('root')) if g is not None else ['~~'],
                      'terms': terms, 'nts': nts})
    return {'ok': 'T', 'sents': sents}


def split_output(fmt, opts, text):
    if fmt == 'export':
        return {'lines': export_lines(text)}
    if fmt == 'brackets':
        return {'toks': bracket_tokens(text), 'nlines': text.count('\n')}
    if fmt == 'discobrackets':
        left, _, right = text.partition('\t')
        right = right[:-1] if right.endswith('\n') else right
        return {'toks': bracket_tokens(left), 'sent': [ch(w) for w in right.split(' ')] if right != '' else [],
                'nlines': text.count('\n')}
    if fmt == 'terminals':
        return {'lines': terminals_lines(text, 'terminals_pos' in opts and 'terminals_one' not in opts)}
    if fmt == 'tigerxml':
        return tiger_record(text)
    raise ValueError(fmt)


def params_of(opts, gfsep):
    p = {o: True for o in opts}
    if gfsep != '-':
        p['gf_separator'] = gfsep
    return p


def run_writer(mods, fmt, opts, gfsep, root):
    to = mods['treeoutput']
    stream = io.StringIO()
    p = params_of(opts, gfsep)
    with contextlib.redirect_stderr(io.StringIO()), contextlib.redirect_stdout(io.StringIO()):
        getattr(to, fmt + '_begin')(stream, **dict(p))
        getattr(to, fmt)(root, stream, **dict(p))
        getattr(to, fmt + '_end')(stream, **dict(p))
    return stream.getvalue()


def record_write_case(cid, T, sid, jobs, mods, seed, origin='tlc'):
    """jobs: list of (fmt, opts, gfsep); every job writes a freshly built tree"""
    import random
    mods = mods or treeio.repo_modules()
    rnd = random.Random(seed)
    root = treeio.build(T, mods, None, rnd, all_chars=True)
    root.data['sid'] = sid
    G = treeio.Dumper(treeio.IDENT, all_chars=True).dump(root)
    events = []
    for (fmt, opts, gfsep) in jobs:
        r = treeio.build(T, mods, None, random.Random(seed), all_chars=True)
        r.data['sid'] = sid
        ev = {'a': 'write', 'fmt': fmt, 'opts': sorted(opts), 'gfsep': [gfsep], 'rec': {'toks': []}}
        try:
            text = run_writer(mods, fmt, opts, gfsep, r)
            ev['res'] = 'ok'
            ev['rec'] = split_output(fmt, opts, text)
            ev['text'] = text[:400]
        except Exception as ex:
            ev['res'] = 'exc'
            ev['exc'] = type(ex).__name__ + ': ' + str(ex)[:80]
        events.append(ev)
    return {'id': cid, 'origin': origin, 'tree': G, 'sid': sid, 'events': events}

"""I/O families (C01 C02 C03 C17 C18): run the real readers / writers / command line
and split what they read or wrote into lexical records. No interpretation here."""
import contextlib
import io
import re
import xml.etree.ElementTree as ET

from . import treeio

ch = treeio.chars


def export_config(mods):
    trees = mods['trees']
    return {'brtab': [[ch(k), ch(v)] for k, v in trees.BRACKETS.items()]}


# ---- splitting written text into lexical records --------------------------------
# Whitespace of the file formats is ASCII whitespace (BracketReader!WSChars; export fields are separated by
# tabs and blanks): a no-break space or an ideographic space is a character of a word.
ASCII_WS = ' \t\n\r\x0b\x0c'
_WS_RE = re.compile('[' + ASCII_WS + ']+')


def ws_split(s):
    return [x for x in _WS_RE.split(s) if x != '']


def write_maybe_gz(path, data, gz, rnd):
    """plain, or gzip: one member, or several members cut at arbitrary bytes (RFC 1952 allows a file to be a
    concatenation of members: `cat a.gz b.gz`)"""
    import gzip
    if not gz:
        with open(path, 'wb') as f:
            f.write(data)
        return
    cuts = sorted(rnd.sample(range(1, len(data)), min(rnd.randint(0, 2), max(0, len(data) - 1)))) if len(data) > 1 else []
    with open(path, 'wb') as f:
        last = 0
        for c in cuts + [len(data)]:
            f.write(gzip.compress(data[last:c]))
            last = c


def export_lines(text):
    out = []
    for ln in text.split('\n'):
        if ln.strip(ASCII_WS) == '':
            continue
        f = ws_split(ln)
        w = f[0]
        wnum = int(w[1:]) if len(w) == 4 and w[0] == '#' and w[1:].isdigit() else -1
        out.append({'f': [ch(x) for x in f], 'n': [int(x) if x.isdigit() else -1 for x in f], 'wnum': wnum})
    return out


def bracket_tokens(text):
    toks, cur = [], ''
    for c in text:
        if c in '()':
            if cur:
                toks.append(ch(cur))
                cur = ''
            toks.append([c])
        elif c in ASCII_WS:
            if cur:
                toks.append(ch(cur))
                cur = ''
        else:
            cur += c
    if cur:
        toks.append(ch(cur))
    return toks


def terminals_lines(text, pairs):
    lines = text.split('\n')
    if lines and lines[-1] == '':
        lines = lines[:-1]
    out = []
    for ln in lines:
        toks = ws_split(ln)
        if pairs:
            out.append([[ch(t.rpartition('/')[0]), ch(t.rpartition('/')[2])] for t in toks])
        else:
            out.append([ch(t) for t in toks])
    return out


def tiger_record(text):
    try:
        root = ET.fromstring(text if isinstance(text, bytes) else text.encode('utf-8'))
    except (ET.ParseError, LookupError, ValueError):
        return {'ok': 'F', 'sents': []}
    sents = []
    body = root.find('body')
    for s in (body.findall('s') if body is not None else []):
        g = s.find('graph')
        terms, nts = [], []
        if g is not None and g.find('terminals') is not None:
            for t in g.find('terminals').findall('t'):
                terms.append({'id': ch(t.get('id')), 'word': ch(t.get('word')), 'lemma': ch(t.get('lemma')),
                              'pos': ch(t.get('pos')), 'morph': ch(t.get('morph'))})
        if g is not None and g.find('nonterminals') is not None:
            for nt in g.find('nonterminals').findall('nt'):
                nts.append({'id': ch(nt.get('id')), 'cat': ch(nt.get('cat')),
                            'edges': [{'label': ch(e.get('label')), 'idref': ch(e.get('idref'))}
                                      for e in nt.findall('edge')]})
        sents.append({'id': ch(s.get('id')), 'root': ch(g.get('root')) if g is not None else ['~~'],
                      'terms': terms, 'nts': nts})
    return {'ok': 'T', 'sents': sents}


def split_output(fmt, opts, text):
    if fmt == 'export':
        return {'lines': export_lines(text)}
    if fmt == 'brackets':
        return {'toks': bracket_tokens(text), 'nlines': text.count('\n')}
    if fmt == 'discobrackets':
        left, _, right = text.partition('\t')
        right = right[:-1] if right.endswith('\n') else right
        return {'toks': bracket_tokens(left), 'sent': [ch(w) for w in right.split(' ')] if right != '' else [],
                'nlines': text.count('\n')}
    if fmt == 'terminals':
        return {'lines': terminals_lines(text, 'terminals_pos' in opts and 'terminals_one' not in opts)}
    if fmt == 'tigerxml':
        return tiger_record(text)
    raise ValueError(fmt)


def params_of(opts, gfsep):
    p = {o: True for o in opts}
    if gfsep != '-':
        # the value as the command line hands it over (`gf_separator:0` arrives as the integer 0)
        p['gf_separator'] = treeio.repo_modules()['misc'].options_dict(['gf_separator:%s' % ('' if gfsep == '~' else gfsep)])['gf_separator']
    return p


def run_writer(mods, fmt, opts, gfsep, root):
    to = mods['treeoutput']
    stream = io.StringIO()
    p = params_of(opts, gfsep)
    with contextlib.redirect_stderr(io.StringIO()), contextlib.redirect_stdout(io.StringIO()):
        getattr(to, fmt + '_begin')(stream, **dict(p))
        getattr(to, fmt)(root, stream, **dict(p))
        getattr(to, fmt + '_end')(stream, **dict(p))
    return stream.getvalue()


def record_write_case(cid, T, sid, jobs, mods, seed, origin='tlc'):
    """jobs: list of (fmt, opts, gfsep); every job writes a freshly built tree"""
    import random
    mods = mods or treeio.repo_modules()
    rnd = random.Random(seed)
    root = treeio.build(T, mods, None, rnd, all_chars=True)
    root.data['sid'] = sid
    G = treeio.Dumper(treeio.IDENT, all_chars=True).dump(root)
    events = []
    for (fmt, opts, gfsep) in jobs:
        r = treeio.build(T, mods, None, random.Random(seed), all_chars=True)
        r.data['sid'] = sid
        ev = {'a': 'write', 'fmt': fmt, 'opts': sorted(opts), 'gfsep': [gfsep], 'rec': {'toks': []}}
        try:
            text = run_writer(mods, fmt, opts, gfsep, r)
            ev['res'] = 'ok'
            ev['rec'] = split_output(fmt, opts, text)
            ev['text'] = text[:400]
        except Exception as ex:
            ev['res'] = 'exc'
            ev['exc'] = type(ex).__name__ + ': ' + str(ex)[:80]
        events.append(ev)
    return {'id': cid, 'origin': origin, 'tree': G, 'sid': sid, 'events': events}


# ==========================================================================
# readers (C01): rendering of intended corpora (joins only; the rendering is decoded by
# the TLA+ decoders before it counts) and recording of reader runs
import gzip
import os
import random
import shutil
import tempfile
from xml.sax.saxutils import quoteattr

un = treeio.unchars


def _nodes(T):
    nodes = sorted(T['nodes'], key=lambda x: (x['d'], min(x['y']), x['tok']))
    par = {}
    for i, x in enumerate(nodes):
        anc = [(y['d'], k) for k, y in enumerate(nodes) if treeio.dominates(y, x)]
        par[i] = max(anc)[1] if anc else None
    return nodes, par


def _height(nodes, par):
    h = {i: 0 for i in range(len(nodes))}
    for i in sorted(range(len(nodes)), key=lambda i: -nodes[i]['d']):
        if par[i] is not None:
            h[par[i]] = max(h[par[i]], h[i] + 1)
    return h


def render_export(T, sid, four, rnd):
    nodes, par = _nodes(T)
    h = _height(nodes, par)
    cons = [i for i, x in enumerate(nodes) if not x['tok'] and par[i] is not None]
    cons.sort(key=lambda i: (h[i], min(nodes[i]['y'])))
    num = {i: 500 + k for k, i in enumerate(cons)}
    for i, x in enumerate(nodes):
        if par[i] is None:
            num[i] = 0
    sep = rnd.choice(['\t', '\t\t', ' ', '  '])
    lines = ['#BOS %d' % sid + rnd.choice(['', ' 1 1234 0', ' 5 99 1 %% comment'])]

    def line(i, word):
        a = nodes[i]['a']
        f = [word] + ([un(a['lemma'])] if four else []) + [un(a['lab']), un(a['morph']), un(a['edge']), str(num[par[i]])]
        if rnd.random() < 0.2:
            f += ['SEC', str(num[par[i]])]
        return sep.join(f)
    toks = sorted([i for i, x in enumerate(nodes) if x['tok']], key=lambda i: nodes[i]['y'][0])
    for i in toks:
        lines.append(line(i, un(nodes[i]['a']['word'])))
    for i in cons:
        lines.append(line(i, '#%d' % num[i]))
    lines.append('#EOS %d' % sid)
    return '\n'.join(lines) + '\n'


def render_brackets(T, rnd, emptyroot=False, numbers=False):
    nodes, par = _nodes(T)
    kids = {i: [] for i in range(len(nodes))}
    for i, p in par.items():
        if p is not None:
            kids[p].append(i)
    ws = rnd.choice([' ', ' ', '\n  ', '  ', '\t'])

    def rec(i, top):
        x = nodes[i]
        if x['tok']:
            w = str(x['y'][0]) if numbers else un(x['a']['word'])
            if x.get('_emptypos'):
                return '(' + w + ')'            # brackets_emptypos: a word without a POS tag
            return '(' + un(x['a']['lab']) + rnd.choice([' ', '  ']) + w + ')'
        ks = sorted(kids[i], key=lambda k: min(nodes[k]['y']))
        lab = '' if (top and emptyroot) else un(x['a']['lab'])
        inner = ws.join(rec(k, False) for k in ks)
        return '(' + lab + rnd.choice(['', ' ']) + inner + rnd.choice(['', ' ']) + ')'
    root = [i for i in par if par[i] is None][0]
    return rec(root, True)


def render_tiger_s(T, sid, rnd):
    nodes, par = _nodes(T)
    kids = {i: [] for i in range(len(nodes))}
    for i, p in par.items():
        if p is not None:
            kids[p].append(i)
    ident = {}
    for i, x in enumerate(nodes):
        ident[i] = 's%d_%d' % (sid, x['y'][0]) if x['tok'] else 's%d_n%d' % (sid, 500 + i)

    def attrs(pairs):
        pairs = list(pairs)
        rnd.shuffle(pairs)
        return ' '.join('%s=%s' % (k, quoteattr(v)) for k, v in pairs)
    out = ['<s id="s%d">' % sid, '<graph root="%s">' % ident[[i for i in par if par[i] is None][0]], '<terminals>']
    for i in sorted([i for i, x in enumerate(nodes) if x['tok']], key=lambda i: nodes[i]['y'][0]):
        a = nodes[i]['a']
        # lemma and morph are optional attributes: absent (['~~'] = None) means the attribute is not written
        tattrs = attrs([('id', ident[i]), ('word', un(a['word'])), ('pos', un(a['lab']))] +
                       [(k_, un(a[k_])) for k_ in ('lemma', 'morph') if a[k_] != ['~~']])
        if rnd.random() < 0.15:      # secondary edges are no part of the tree
            out.append('<t %s><secedge label="SB" idref="%s" /></t>' % (tattrs, ident[rnd.randrange(len(nodes))]))
        else:
            out.append('<t %s />' % tattrs)
    out.append('</terminals>')
    out.append('<nonterminals>')
    nts = [i for i, x in enumerate(nodes) if not x['tok']]
    rnd.shuffle(nts)
    for i in nts:
        out.append('<nt %s>' % attrs([('id', ident[i]), ('cat', un(nodes[i]['a']['lab']))]))
        ks = list(kids[i])
        rnd.shuffle(ks)
        sec = rnd.random() < 0.25
        if sec and rnd.random() < 0.5:
            out.append('<secedge label="OA" idref="%s" />' % ident[rnd.randrange(len(nodes))])
        for k in ks:
            out.append('<edge %s />' % attrs([('label', un(nodes[k]['a']['edge'])), ('idref', ident[k])]))
        if sec:
            out.append('<secedge label="SB" idref="%s" />' % ident[rnd.randrange(len(nodes))])
        out.append('</nt>')
    out += ['</nonterminals>', '</graph>', '</s>']
    return '\n'.join(out) + '\n'


def lex_tokens(text):
    """the lexical classes of a bracket file (mirror of the lexer's three character classes)"""
    toks, cur, kind = [], '', None
    for c in text:
        k = 'P' if c in '()' else ('W' if c in ASCII_WS else 'O')
        if k == 'P':
            if cur:
                toks.append(['WS' if kind == 'W' else 'TOKEN', ch(cur)])
                cur, kind = '', None
            toks.append(['LRB' if c == '(' else 'RRB', [c]])
        else:
            if kind is not None and kind != k:
                toks.append(['WS' if kind == 'W' else 'TOKEN', ch(cur)])
                cur = ''
            cur += c
            kind = k
    if cur:
        toks.append(['WS' if kind == 'W' else 'TOKEN', ch(cur)])
    return toks


def run_reader(mods, fmt, path, enc, params, atoms=None, collect=False, transforming=False):
    """collect: the consumer keeps every yielded tree and looks at them only after the reader has finished
    (list(reader), what --split does); otherwise each tree is observed when it is yielded (streaming).  A
    yielded tree is the reader's answer for its sentence in both cases.  transforming: like the command line, the
    consumer transforms each tree (trace deletion, head marking, binarization - operations that parse and edit
    labels) after looking at it and before asking for the next one."""
    ti = mods['treeinput']
    events = []
    kept = []
    out, err = io.StringIO(), io.StringIO()

    def observe(tree):
        events.append({'a': 'yield', 'g': treeio.Dumper(treeio.IDENT, all_chars=True).dump(tree)})
    with contextlib.redirect_stdout(out), contextlib.redirect_stderr(err):
        last = None
        try:
            gen = getattr(ti, fmt)(path, enc, **params)
            for tree in gen:
                if collect:
                    kept.append(tree)
                else:
                    observe(tree)
                    if transforming:
                        try:
                            tf_ = mods['transform']
                            tree = tf_.ptb_delete_traces(tree)
                            tree = tf_.binarize(tf_.negra_mark_heads(tree))
                        except Exception:
                            pass
            last = {'a': 'eof'}
        except Exception as ex:
            last = {'a': 'error', 'exc': type(ex).__name__, 'msg': str(ex)[:80]}
        for tree in kept:
            observe(tree)
        events.append(last)
    printed = len(out.getvalue().strip().splitlines()) + len(err.getvalue().strip().splitlines())
    for e in events:
        if e['a'] == 'eof':
            e['printed'] = printed
    return events


def reader_params(opts, sep, firstid):
    """reader options as the command line hands them over: `key` / `key:value` strings through the
    tool's own misc.options_dict (so that the option path of the CLI is part of what is exercised)"""
    strs = []
    for o in opts:
        strs.append('brackets_firstid:%d' % firstid if o == 'brackets_firstid' else o)
    if sep != '-':
        strs.append('gf_separator:%s' % sep)
    return treeio.repo_modules()['misc'].options_dict(strs)


def record_tokens_case(cid, toks, opts, mods, seed, origin='tlc'):
    mods = mods or treeio.repo_modules()
    rnd = random.Random(seed)
    text = ''
    for c, x in toks:
        text += rnd.choice([' ', '\n', '  ', '\t', ' \n ']) if c == 'WS' else un(x)
    tmp = tempfile.mkdtemp(prefix='vf_rd_')
    try:
        path = os.path.join(tmp, 'in.brackets')
        with open(path, 'w', encoding='utf-8') as f:
            f.write(text)
        firstid = 1
        events = run_reader(mods, 'brackets', path, 'utf-8', reader_params(opts, '-', firstid))
    finally:
        shutil.rmtree(tmp, ignore_errors=True)
    return {'id': cid, 'origin': origin, 'kind': 'tokens', 'fmt': 'brackets', 'opts': sorted(opts), 'sep': ['-'],
            'four': 'F', 'toks': lex_tokens(text), 'firstid': firstid, 'trees': [], 'sids': [], 'expsids': [],
            'input': [], 'events': events, 'text': text[:200]}


def record_corpus_case(cid, Ts, fmt, opts, sep, mods, seed, origin='tlc'):
    mods = mods or treeio.repo_modules()
    rnd = random.Random(seed)
    four = rnd.random() < 0.5
    sids = []
    s0 = rnd.choice([1, 7, 500])
    for k in range(len(Ts)):
        sids.append(s0 + k * rnd.choice([1, 1, 3]))
    firstid = rnd.choice([0, 1, 42]) if 'brackets_firstid' in opts else 1
    enc = rnd.choice(['utf-8', 'utf-8', 'latin-1']) if fmt != 'tigerxml' else 'utf-8'
    gz = fmt != 'tigerxml' and rnd.random() < 0.3
    inputs = []
    if fmt == 'export':
        parts = [render_export(T, s, four, rnd) for T, s in zip(Ts, sids)]
        text = rnd.choice(['', '%%%% header\n#FORMAT %d\n#BOT ORIGIN\n#EOT ORIGIN\n' % (4 if four else 3)]) + \
            rnd.choice(['', '\n', '%% between\n']).join(parts)
        inputs = [export_lines(p) for p in parts]
        expsids = [k + 1 for k in range(len(Ts))] if 'continuous' in opts else sids
    elif fmt == 'brackets':
        if 'brackets_emptypos' in opts:
            import copy
            Ts = copy.deepcopy(Ts)
            for T in Ts:
                for x in T['nodes']:
                    if x['tok'] and rnd.random() < 0.5:
                        x['_emptypos'] = True
                        x['a']['lab'] = ch('EMPTY')
        er = rnd.random() < 0.4
        text = rnd.choice(['\n', '\n\n', ' ']).join(render_brackets(T, rnd, emptyroot=er) for T in Ts) + rnd.choice(['\n', ''])
        expsids = [firstid + k for k in range(len(Ts))]
        if er:
            Ts = [_with_root_label(T, 'VROOT') for T in Ts]
    elif fmt == 'discobrackets':
        text = ''.join(render_brackets(T, random.Random(seed), numbers=True) + '\t' +
                       ' '.join(un(x['a']['word']) for x in sorted([x for x in T['nodes'] if x['tok']], key=lambda x: x['y'][0]))
                       + '\n' for T in Ts)
        expsids = [firstid + k for k in range(len(Ts))]
    else:
        if seed % 3 == 0:      # optional attributes missing on all / some tokens
            import copy
            Ts = copy.deepcopy(Ts)
            for T in Ts:
                for x in T['nodes']:
                    if x['tok']:
                        for k_ in ('lemma', 'morph'):
                            if rnd.random() < 0.6:
                                x['a'][k_] = ['~~']
        body = ''.join(render_tiger_s(T, s, rnd) for T, s in zip(Ts, sids))
        text = "<?xml version='1.0' encoding='utf-8'?>\n<corpus>\n<head/>\n<body>\n" + body + "</body>\n</corpus>\n"
        rec = tiger_record(text)
        inputs = rec['sents'] if rec['ok'] == 'T' and len(rec['sents']) == len(Ts) else []
        expsids = [k + 1 for k in range(len(Ts))] if 'continuous' in opts else sids
    try:
        text.encode(enc)
    except UnicodeEncodeError:
        enc = 'utf-8'
    tmp = tempfile.mkdtemp(prefix='vf_rd_')
    try:
        path = os.path.join(tmp, 'in.' + fmt + ('.gz' if gz else ''))
        data = text.encode(enc)
        write_maybe_gz(path, data, gz, rnd)
        events = run_reader(mods, fmt, path, enc, reader_params(opts, sep, firstid), collect=seed % 3 == 1,
                            transforming=seed % 3 == 2)
    finally:
        shutil.rmtree(tmp, ignore_errors=True)
    return {'id': cid, 'origin': origin, 'kind': 'corpus', 'fmt': fmt, 'opts': sorted(opts), 'sep': [sep],
            'four': 'T' if four else 'F', 'toks': [], 'firstid': firstid, 'trees': Ts, 'sids': sids,
            'expsids': expsids, 'input': inputs, 'events': events, 'enc': enc, 'gz': gz, 'text': text[:300],
            'consume': ('stream', 'collect', 'stream+transform')[seed % 3]}


def _with_root_label(T, lab):
    import copy
    T = copy.deepcopy(T)
    for x in T['nodes']:
        if x['d'] == 0:
            x['a']['lab'] = ch(lab)
    return T

"""C19 / C16 (API part): drive the real navigation and gap-degree functions on
trees built through the tree API; record every answer as indices into the
dumped raw graph."""
import random

from . import treeio


def record_case(cid, T, mods, seed, shuffle=True, origin='tlc'):
    mods = mods or treeio.repo_modules()
    trees = mods['trees']
    ta = mods['treeanalysis']
    to = mods['treeoutput']
    rnd = random.Random(seed)
    atoms = treeio.Atoms(seed, exotic=True)
    root = treeio.build(T, mods, atoms, rnd if shuffle else None)
    dmp = treeio.Dumper(atoms)
    G = dmp.dump(root)
    objs = list(dmp.objs)
    ix = dmp.idx
    events = []

    def ev(name, fn):
        try:
            r = fn()
            r['a'] = name
            r['res'] = 'ok'
            r['exc'] = '~'
        except Exception as ex:           # recorded on the error path too
            r = {'a': name, 'res': 'exc', 'exc': type(ex).__name__}
        events.append(r)

    def o0(x):
        return 0 if x is None else ix(x)

    ev('children', lambda: {'out': [[ix(c) for c in trees.children(o)] for o in objs]})
    ev('terminals', lambda: {'out': [[ix(c) for c in trees.terminals(o)] for o in objs]})
    ev('preorder', lambda: {'out': [[ix(c) for c in trees.preorder(o)] for o in objs]})
    ev('postorder', lambda: {'out': [[ix(c) for c in trees.postorder(o)] for o in objs]})
    ev('siblings', lambda: {'right': [o0(trees.right_sibling(o)) for o in objs],
                            'left': [o0(trees.left_sibling(o)) for o in objs]})
    ev('dominance', lambda: {'out': [[ix(c) for c in trees.dominance(o)] for o in objs]})
    ev('lca', lambda: {'out': [[o0(trees.lca(a, b)) for b in objs] for a in objs]})

    def lev():
        levels, rev = trees.levels(root)
        return {'out': [rev.get(o, -1) for o in objs],
                'groups': [[k, [ix(o) for o in v]] for k, v in sorted(levels.items())]}
    ev('levels', lev)
    ev('gap_degree_node', lambda: {'out': [ta.gap_degree_node(o) for o in objs]})
    ev('terminal_blocks', lambda: {'out': [[[ix(t) for t in b] for b in trees.terminal_blocks(o)]
                                           for o in objs]})
    ev('gap_degree', lambda: {'out': ta.gap_degree(root)})

    def numbering():
        to.compute_export_numbering(root)
        return {'num': [o.data.get('num', -1) if isinstance(o.data.get('num', -1), int) else -1
                        for o in objs]}
    ev('numbering', numbering)     # last: it overwrites data['num'] of constituents
    return {'id': cid, 'origin': origin, 'init': G, 'events': events}

"""C19 / C16 (API part): drive the real navigation and gap-degree functions on
trees built through the tree API; record every answer as indices into the
dumped raw graph."""
import random

from . import treeio


def record_case(cid, T, mods, seed, shuffle=True, origin='tlc'):
    mods = mods or treeio.repo_modules()
    trees = mods['trees']
    ta = mods['treeanalysis']
    to = mods['treeoutput']
    rnd = random.Random(seed)
    atoms = treeio.Atoms(seed, exotic=True)
    root = treeio.build(T, mods, atoms, rnd if shuffle else None)
    # provenance: a quarter of the trees come out of the tool's own export reader (which leaves its own
    # bookkeeping in the node data) and half of those are then edited by delete_terminal, which renumbers
    # the tokens; the answers are judged against the graph as it is after that
    onenode = len(T['nodes']) == 1      # (root = token: no export rendering of it)
    via_reader = seed % 4 == 1 and not onenode
    if via_reader:
        import copy
        import os
        import tempfile
        from . import fam_io
        T1 = copy.deepcopy(T)
        for x in T1['nodes']:
            for f_ in ('lemma', 'morph'):
                if x['a'][f_] == '~':
                    x['a'][f_] = '--'
        fd, fn = tempfile.mkstemp(prefix='vf_nv_', suffix='.export')
        try:
            with os.fdopen(fd, 'w', encoding='utf-8') as f:
                f.write(fam_io.render_export(T1, 1, False, random.Random(seed)))
            root = next(mods['treeinput'].export(fn, 'utf-8', quiet=True))
        finally:
            os.unlink(fn)
        leaves = trees.terminals(root)
        if len(leaves) >= 2 and seed % 8 == 1:
            trees.delete_terminal(root, leaves[rnd.randrange(len(leaves))])
        elif seed % 8 == 5:
            # the tree is kept while another (tiny) treebank is opened and read, and only then gets a new node
            # (add_topnode): node identity must not depend on what else was read in the meantime
            import io as _io2
            import contextlib as _cl2
            fd2, fn2 = tempfile.mkstemp(prefix='vf_nv_', suffix='.brackets')
            try:
                with os.fdopen(fd2, 'w') as f2:
                    f2.write('(S (T a))\n')
                with _cl2.redirect_stdout(_io2.StringIO()), _cl2.redirect_stderr(_io2.StringIO()):
                    list(mods['treeinput'].brackets(fn2, 'utf-8'))
            finally:
                os.unlink(fn2)
            root = mods['transform'].add_topnode(root)
    dmp = treeio.Dumper(atoms)
    G = dmp.dump(root)
    objs = list(dmp.objs)
    ix = dmp.idx
    events = []

    def ev(name, fn):
        try:
            r = fn()
            r['a'] = name
            r['res'] = 'ok'
            r['exc'] = '~'
        except Exception as ex:           # recorded on the error path too
            r = {'a': name, 'res': 'exc', 'exc': type(ex).__name__}
        events.append(r)

    def o0(x):
        return 0 if x is None else ix(x)

    ev('children', lambda: {'out': [[ix(c) for c in trees.children(o)] for o in objs]})
    ev('terminals', lambda: {'out': [[ix(c) for c in trees.terminals(o)] for o in objs]})
    ev('helpers', lambda: {'uterms': [[ix(c) for c in trees.unordered_terminals(o)] for o in objs],
                           'haskids': ['T' if trees.has_children(o) else 'F' for o in objs]})
    ev('preorder', lambda: {'out': [[ix(c) for c in trees.preorder(o)] for o in objs]})
    ev('postorder', lambda: {'out': [[ix(c) for c in trees.postorder(o)] for o in objs]})
    ev('siblings', lambda: {'right': [o0(trees.right_sibling(o)) for o in objs],
                            'left': [o0(trees.left_sibling(o)) for o in objs]})
    ev('dominance', lambda: {'out': [[ix(c) for c in trees.dominance(o)] for o in objs]})
    ev('lca', lambda: {'out': [[o0(trees.lca(a, b)) for b in objs] for a in objs]})

    def lev():
        levels, rev = trees.levels(root)
        return {'out': [rev.get(o, -1) for o in objs],
                'groups': [[k, [ix(o) for o in v]] for k, v in sorted(levels.items())]}
    ev('levels', lev)
    ev('gap_degree_node', lambda: {'out': [ta.gap_degree_node(o) for o in objs]})
    ev('terminal_blocks', lambda: {'out': [[[ix(t) for t in b] for b in trees.terminal_blocks(o)]
                                           for o in objs]})
    ev('gap_degree', lambda: {'out': ta.gap_degree(root)})

    def three():
        import io as _io
        gd = ta.gap_degree(root)
        # (child lists stored in any order: the three notions are about the tree, not about its storage)
        r2 = treeio.build(T, mods, atoms, random.Random(seed + 1) if shuffle else None)
        r2.data['sid'] = 1
        try:
            to.brackets(r2, _io.StringIO())
            refuses = 'F'
        except ValueError:
            refuses = 'T'
        g_, l_ = {}, {}
        mods['grammar'].extract(treeio.build(T, mods, atoms, random.Random(seed + 2) if shuffle else None), g_, l_)
        return {'gd': gd, 'refuses': refuses, 'cf': 'T' if mods['grammaranalysis'].is_contextfree(g_) else 'F'}
    if not via_reader:
        ev('three_notions', three)
    if all(len(o.children) <= 2 for o in objs):
        ev('disco_order', lambda: {'left': [ix(t) for t in ta.disco_order(root, 'left')],
                                   'rightd': [ix(t) for t in ta.disco_order(root, 'rightd')]})

    def analysis():
        import contextlib
        import io as _io
        import re
        others = [treeio.random_tree(random.Random(seed + k), nmax=6, maxcons=4, tags=('T', 'U', 'V')) for k in range(seed % 3)]
        roots = [root] + [treeio.build(t_, mods, atoms, None) for t_ in others]
        graphs = [G] + [treeio.Dumper(atoms).dump(r_) for r_ in roots[1:]]
        out = _io.StringIO()
        with contextlib.redirect_stdout(out):
            tasks = [ta.GapDegree(), ta.PosTags(), ta.SentenceCount()]
            for t_ in tasks:
                for r_ in roots:
                    t_.run(r_)
                t_.done()
        txt = out.getvalue()
        m = re.search(r'(\d+) trees, (\d+) nodes', txt)
        pt, pn, sec = [], [], None
        for ln in txt.split('\n'):
            if ln.startswith('Per tree'):
                sec = pt
            elif ln.startswith('Per node'):
                sec = pn
            mm = re.match(r'Gap degree\s+(\d+):\s+(\d+) ', ln)
            if mm and sec is not None:
                sec.append([int(mm.group(1)), int(mm.group(2))])
        return {'trees': graphs, 'ntrees': int(m.group(1)), 'nnodes': int(m.group(2)), 'pertree': pt, 'pernode': pn,
                'ntags': int(re.search(r'(\d+) different tags', txt).group(1)),
                'nsent': int(re.search(r'(\d+) sentences', txt).group(1))}
    ev('analysis', analysis)

    def analysis_cli():
        # the same numbers through `treetools treeanalysis SRC TASK` on a rendered export file
        import os
        import re
        import shutil
        import subprocess
        import tempfile
        from . import core, fam_io
        tmp = tempfile.mkdtemp(prefix='vf_an_')
        try:
            T2 = dict(T)
            fn = os.path.join(tmp, 'tb.export')
            Ts = [T] + [treeio.random_tree(random.Random(seed + 5 + k), nmax=6, maxcons=4, tags=('T', 'U')) for k in range(seed % 2)]
            for t_ in Ts:
                for x in t_['nodes']:
                    for f_ in ('lemma', 'morph'):
                        if x['a'][f_] == '~':
                            x['a'][f_] = '--'
            with open(fn, 'w', encoding='utf-8') as f:
                for k, t_ in enumerate(Ts):
                    f.write(fam_io.render_export(t_, k + 1, False, random.Random(k)))
            outs = {}
            for task in ('GapDegree', 'PosTags', 'SentenceCount'):
                p = subprocess.run([core.VENV_PY, os.path.join(core.REPO, 'treetools'), 'treeanalysis', fn, task],
                                   cwd=tmp, stdout=subprocess.PIPE, stderr=subprocess.PIPE)
                outs[task] = p.stdout.decode('utf-8', 'replace') if p.returncode == 0 else ''
            graphs = [treeio.Dumper(atoms).dump(treeio.build(t_, mods, atoms, None)) for t_ in Ts]
            txt = outs['GapDegree']
            m = re.search(r'(\d+) trees, (\d+) nodes', txt)
            pt, pn, sec = [], [], None
            for ln in txt.split('\n'):
                if ln.startswith('Per tree'):
                    sec = pt
                elif ln.startswith('Per node'):
                    sec = pn
                mm = re.match(r'Gap degree\s+(\d+):\s+(\d+) ', ln)
                if mm and sec is not None:
                    sec.append([int(mm.group(1)), int(mm.group(2))])
            mt = re.search(r'(\d+) different tags', outs['PosTags'])
            ms = re.search(r'(\d+) sentences', outs['SentenceCount'])
            return {'trees': graphs, 'ntrees': int(m.group(1)) if m else -1, 'nnodes': int(m.group(2)) if m else -1,
                    'pertree': pt, 'pernode': pn, 'ntags': int(mt.group(1)) if mt else -1,
                    'nsent': int(ms.group(1)) if ms else -1}
        finally:
            shutil.rmtree(tmp, ignore_errors=True)
    if seed % 40 == 0 and not via_reader and not onenode:
        events.append(dict(analysis_cli(), a='analysis', res='ok', exc='~'))

    def numbering():
        to.compute_export_numbering(root)
        return {'num': [o.data.get('num', -1) if isinstance(o.data.get('num', -1), int) else -1
                        for o in objs]}
    if seed % 4 == 2 and len(trees.terminals(root)) >= 2:
        # the same tree objects, changed in place, are asked again: an answer must describe the tree as it is
        # now (nothing may be remembered per node from the first round)
        leaves = trees.terminals(root)
        trees.delete_terminal(root, leaves[rnd.randrange(len(leaves))])
        dmp2 = treeio.Dumper(atoms)
        G2 = dmp2.dump(root)
        objs2 = list(dmp2.objs)
        ix2 = dmp2.idx
        events.append({'a': 'mutate', 'res': 'ok', 'exc': '~', 'g': G2, 'by': 'delete_terminal'})
        objs[:] = objs2
        ix = ix2

        def o0(x):
            return 0 if x is None else ix2(x)
        ev('children', lambda: {'out': [[ix2(c) for c in trees.children(o)] for o in objs2]})
        ev('terminals', lambda: {'out': [[ix2(c) for c in trees.terminals(o)] for o in objs2]})
        ev('siblings', lambda: {'right': [o0(trees.right_sibling(o)) for o in objs2],
                                'left': [o0(trees.left_sibling(o)) for o in objs2]})
        ev('gap_degree_node', lambda: {'out': [ta.gap_degree_node(o) for o in objs2]})
        ev('terminal_blocks', lambda: {'out': [[[ix2(t) for t in b] for b in trees.terminal_blocks(o)]
                                               for o in objs2]})
        ev('gap_degree', lambda: {'out': ta.gap_degree(root)})
    ev('numbering', numbering)     # last: it overwrites data['num'] of constituents
    return {'id': cid, 'origin': origin, 'init': G, 'events': events, 'via_reader': via_reader}

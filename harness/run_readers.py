"""Check C01 (readers)."""
import itertools
import json
import random

from . import core, treeio, fam_io
from .run_writers import kind

ch = treeio.chars
CFG_A = """CONSTANTS L = %(L)d
 Opts = {%(opts)s}
 Sep = "-"
 Texts <- c_Texts
 Dev = {%(dev)s}
INIT Init
NEXT Next
INVARIANT InvBook
INVARIANT InvDecl
INVARIANT InvFold
INVARIANT InvAbs
%(emit)s
CHECK_DEADLOCK FALSE
"""
CFG_R = """CONSTANTS N = %(N)d
 MaxCons = %(MaxCons)d
 MaxChain = %(MaxChain)d
 TokKinds <- c_TokKinds
 CLabels <- c_CLabels
 CEdges <- c_CEdges
 Jobs <- c_Jobs
 BrTab <- c_BrTab
 Dev = {}
INIT Init
NEXT Next
INVARIANT InvReadWrite
INVARIANT Emit
CHECK_DEADLOCK FALSE
"""
TRACE_CFG = 'CONSTANTS Dev = {}\nINIT TInit\nNEXT TNext\nCHECK_DEADLOCK FALSE\n'
ROPTS = {'export': ['continuous', 'gf_split', 'replace_parens', 'quiet'],
         'tigerxml': ['continuous', 'gf_split', 'replace_parens', 'quiet'],
         'brackets': ['gf_split', 'replace_parens', 'brackets_firstid', 'brackets_emptypos', 'quiet'],
         'discobrackets': ['gf_split', 'quiet']}


def jobs(tier):
    out = []
    for fmt, names in ROPTS.items():
        for k in range(0, (len(names) if tier != 'quick' else 1) + 1):
            for sub in itertools.combinations(names, k):
                out.append({'fmt': fmt, 'o': set(sub), 'sep': '-'})
                if 'gf_split' in sub and len(sub) == 1:
                    out.append({'fmt': fmt, 'o': set(sub), 'sep': '#'})
        if tier == 'quick':
            out.append({'fmt': fmt, 'o': set(names), 'sep': '-'})
    return out


def site_of(case, step):
    return case['fmt'] + ':' + case['kind']


def run(prop, tier, seed, replay=None):
    mods = treeio.repo_modules()
    cfgc = fam_io.export_config(mods)
    rep = core.Report(prop, tier, seed)
    rnd = random.Random(seed)
    with core.Work('rd') as w:
        core.sany(w, 'Trace_Readers')
        cases = []
        if replay:
            cases = [json.load(open(replay))['case']]
        else:
            # (a) the automaton: all lexer-token class sequences
            core.gen_module(w, 'MCBA', ['MC_BracketAutomaton'],
                            {'c_Texts': core.Raw('{<<"A">>, <<"b", "-", "S">>}')})
            tok_args = []
            for (L, opts) in ([(6, []), (5, ['brackets_emptypos'])] if tier == 'quick'
                              else [(9, []), (8, ['brackets_emptypos']), (7, ['gf_split'])]):
                r = core.tlc(w, 'MCBA', CFG_A % dict(L=L, opts=', '.join('"%s"' % o for o in opts), dev='',
                                                     emit='INVARIANT Emit'), timeout=3000, coverage=True)
                core.tlc_ok(r, 'MC_BracketAutomaton')
                rep.add_mc('MC_BracketAutomaton L=%d opts=%s' % (L, opts), r,
                           'every lexer-token class sequence; automaton == declarative group grammar')
                seen = set()
                for c in r.cases:
                    key = json.dumps(c['toks'])
                    if key not in seen:
                        seen.add(key)
                        tok_args.append(('A-%s%06d' % ((opts[0][:1] if opts else 'p') + str(L), len(seen)), c['toks'], opts, None,
                                         seed + len(seen)))
            # symbolic run: the bookkeeping invariant of the abstract automaton (BracketAbs, tied to RdStep by InvAbs
            # above) is inductive - it holds after token sequences of EVERY length (Apalache)
            for (what, init, inv, length, want) in (('base case', 'Init', 'IndInv', 0, 'NoError'),
                                                    ('induction step', 'IndInit', 'IndInv', 1, 'NoError'),
                                                    ('non-vacuity: termCnt is always 1', 'Init', 'NotInv', 6, 'Error')):
                outcome, wall_a, out_a = core.apalache(w, 'Apa_BracketAuto', inv, length=length, init=init, timeout=900)
                if outcome != want:
                    raise core.MachineryError('Apalache on Apa_BracketAuto (%s): outcome %s, expected %s\n%s'
                                              % (what, outcome, want, out_a[-2000:]))
                rep.extra.setdefault('symbolic_runs', []).append(
                    {'tool': 'apalache-mc 0.58', 'module': 'Apa_BracketAuto', 'what': what, 'init': init, 'invariant': inv,
                     'length': length, 'outcome': outcome, 'wall_s': round(wall_a, 1),
                     'scope': 'token sequences of every length, every first id, brackets_emptypos on or off'})
            nv = core.tlc(w, 'MCBA', CFG_A % dict(L=5, opts='', dev='"truncated_group_silent"', emit=''), timeout=600)
            if 'InvDecl' not in nv.violated:
                raise core.MachineryError('non-vacuity: truncated_group_silent not detected')
            rep.extra['nonvacuity'] = {'truncated_group_silent': 'InvDecl violated as required'}
            # (b) corpora
            kq = [kind('w', sfx=True), kind('(', tag='$('), kind('-LRB-', tag='$[')]
            kt = kq + [kind(u'Üb"', sfx=True), kind(u'1\u00a00')]
            m = dict(N=3, MaxCons=2, MaxChain=1) if tier == 'quick' else dict(N=3, MaxCons=2, MaxChain=2)
            jb = jobs(tier)
            core.gen_module(w, 'MCR', ['MC_Readers'], {
                'c_TokKinds': core.Raw('{' + ', '.join(core.tla(x) for x in (kq if tier == 'quick' else kt)) + '}'),
                'c_CLabels': core.Raw('{' + ', '.join(core.tla(ch(x)) for x in (['S-SB-1', 'X#Y', 'EMPTY-HD'] if tier == 'quick' else ['S-SB-1', 'X#Y'])) + '}'),
                # (thorough: the third label would more than double a model that is at the heap limit; labels spelled
                #  like the default label are in the random corpora of both tiers)
                'c_CEdges': core.Raw('{' + ', '.join(core.tla(ch(x)) for x in (['HD'] if tier == 'quick' else ['HD', '--'])) + '}'),
                'c_Jobs': core.Raw('{' + ', '.join(core.tla(j) for j in jb) + '}'),
                'c_BrTab': cfgc['brtab']})
            r = core.tlc(w, 'MCR', CFG_R % m, coverage=True, timeout=3400)
            core.tlc_ok(r, 'MC_Readers')
            rep.add_mc('MC_Readers %s jobs=%d' % (json.dumps(m, sort_keys=True), len(jb)), r,
                       'all trees x reader jobs; automaton(reference bracket encoding) = tree')
            byjob = {}
            for c in r.cases:
                byjob.setdefault((c['fmt'], tuple(sorted(c['opts'])), c['sep']), []).append(c['tree'])
            corp_args = []
            for (fmt, o, sep), trees in sorted(byjob.items()):
                trees = [t for t in trees if fmt not in ('brackets',) or gapdeg(t) == 0]
                if fmt in ('brackets', 'discobrackets'):
                    trees = [t for t in trees if not any(c_ in ('(', ')') for x in t['nodes']
                                                         for f_ in ('word', 'lab') for c_ in x['a'][f_])]
                rnd.shuffle(trees)
                i = 0
                while i < len(trees):
                    k = rnd.randint(1, 3)
                    corp_args.append(('C-%06d' % len(corp_args), trees[i:i + k], fmt, list(o), sep, None, seed + i))
                    i += k
            # seeded random corpora with the alphabets the quantifier names (look-alikes of node references,
            # XML-special, non-ASCII, tab-stop lengths), all formats and option subsets
            pool = ['w', 'w', 'a&b', '<t>', '"q"', "it's", u'Übermaß', u'日本', 'x' * 7, 'y' * 8, 'z' * 15, 'v' * 16,
                    '#1', '#42', '#4711', '#50', '--', '%s', '-LRB-', '[', 'NP', '500',
                    # non-ASCII space characters are characters of a word, not separators
                    u'10\u00a0000', u'z.\u202fB.', u'a\u3000b', u'\u00a0x', u'p\u2028q']
            for k in range(250 if tier == 'quick' else 4000):
                fmt = rnd.choice(list(ROPTS))
                o = [x for x in ROPTS[fmt] if rnd.random() < 0.3]
                Ts = []
                for _ in range(rnd.randint(1, 3)):
                    T = treeio.random_tree(rnd, nmax=7 if tier == 'quick' else 10, maxcons=5, labels=('S', 'NP-SB', 'VP-1', 'X#Y=2', 'EMPTY-HD', 'EMPTY'),
                                           edges=('HD', '--', 'OA'),
                                           tags=('NN', '$,', 'VVFIN-X') if fmt in ('brackets', 'discobrackets') else ('NN', '$(', 'VVFIN-X'),
                                           tokedges=('--', 'HD'),
                                           disc=0.0 if fmt == 'brackets' else 0.5,
                                           # (in a discobracket file the words stand after the tab: a parenthesis is
                                           #  an ordinary token there)
                                           words=lambda r_, p_: (lambda x: x + str(p_) if x == 'w' else x)(
                                               r_.choice(pool + (['(', ')', '('] if fmt == 'discobrackets' else []))))
                    for x in T['nodes']:
                        a = x['a']
                        for fld in ('lab', 'edge', 'lemma', 'morph', 'word'):
                            a[fld] = ch(a[fld]) if a[fld] != '~' else ['~~']
                        if not x['tok']:
                            a['lemma'], a['morph'] = ch('--'), ch('--')
                        else:
                            a['lemma'] = ch(rnd.choice(['--', 'l' * 8, 'l' * 16, 'l' * 24]))
                            a['morph'] = ch(rnd.choice(['--', 'm' * 8, 'Comp.Nom.Sg.Masc', 'm' * 24]))
                    Ts.append(T)
                corp_args.append(('Q-%05d' % k, Ts, fmt, o, rnd.choice(['-', '-', '#']) if 'gf_split' in o else '-',
                                  None, seed + k, 'random'))
            rep.exhaustive = True
            cases = core.pmap(fam_io.record_tokens_case, tok_args, chunksize=256) + \
                core.pmap(fam_io.record_corpus_case, corp_args, chunksize=32)
        byid = {c['id']: c for c in cases}
        verdicts, wall = core.validate_traces(w, 'Trace_Readers', cases, header={'config': cfgc}, cfg=TRACE_CFG, chunk=1500)
        bad = [v['id'] for v in verdicts.values() if any(f[0].startswith('machinery.') for f in v['failed'])]
        if bad:
            raise core.MachineryError('rendered input not decodable by the TLA+ decoder: %s' % bad[:3])
        rep.extra['trace_validation_wall_s'] = round(wall, 1)
        rep.judge(byid, verdicts, site_of=site_of)
        rep.rule = ('(a) TLC enumerates every lexer-token class sequence up to length L (automaton == group grammar); each is '
                    'rendered with seeded whitespace and read by the real bracket reader. (b) TLC enumerates trees x reader '
                    '(format, option set) jobs; corpora of 1-3 trees are rendered by the harness (export v3/v4 with headers, '
                    'comments, secondary edges; brackets with varied whitespace / empty root; discobrackets; TIGER-XML with '
                    'shuffled attribute and node order; utf-8 / latin-1; gzip), decoded by the TLA+ decoders and read by the real '
                    'readers. non-trivial = at least one tree yielded')
        rep.samples = [slim(cases[len(cases) // 5]), slim(cases[-1])] if cases else []
        rep.assumptions = ['TLC, SANY, CommunityModules', 'harness renderers are joins whose output is decoded by the TLA+ '
                           'decoders before it counts', 'BRACKETS table exported from the code']
        return rep.finish(byid)


def gapdeg(T):
    def runs(y):
        return sum(1 for i, p in enumerate(y) if i == 0 or y[i - 1] + 1 < p)
    return max(runs(sorted(x['y'])) - 1 for x in T['nodes'])


def slim(case):
    c = dict(case)
    c['events'] = [{k: v for k, v in e.items() if k != 'g'} for e in case['events']]
    c['input'] = '...'
    return c

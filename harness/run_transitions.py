"""Check C10 (transition oracles)."""
import json
import random

from . import core, treeio, fam_transitions as fx

CFG = """CONSTANTS N = %(N)d
 MaxCons = %(MaxCons)d
 MaxChain = %(MaxChain)d
 MaxKids = %(MaxKids)d
 Dev = {%(dev)s}
INIT Init
NEXT Next
INVARIANT InvOracles
%(emit)s
CHECK_DEADLOCK FALSE
"""
CFG_AUTO = """CONSTANTS N = %(N)d
 Sys = "%(Sys)s"
 MaxSteps = %(MaxSteps)d
 Dev = {}
INIT Init
NEXT Next
INVARIANT InvBuildsTree
CHECK_DEADLOCK FALSE
"""
BOUNDS = {'quick': [dict(N=4, MaxCons=4, MaxChain=2, MaxKids=2), dict(N=4, MaxCons=3, MaxChain=1, MaxKids=4)],
          'thorough': [dict(N=5, MaxCons=5, MaxChain=2, MaxKids=2), dict(N=5, MaxCons=4, MaxChain=2, MaxKids=5),
                       dict(N=6, MaxCons=6, MaxChain=1, MaxKids=2)]}
TRACE_CFG = 'CONSTANTS Dev = {%s}\n Mode = "%s"\nINIT TInit\nNEXT TNext\nCHECK_DEADLOCK FALSE\n'


def dev_text(dev):
    return ', '.join('"%s"' % d for d in dev)


def random_binarized(rnd, nmax):
    """random head-marked binarized (possibly discontinuous) tree with unary nodes"""
    n = rnd.randint(1, nmax)
    items = [[p] for p in range(1, n + 1)]
    nodes = []
    cnt = [0]

    def lab():
        cnt[0] += 1
        return 'X%d' % cnt[0]
    fam = []
    while len(items) > 1:
        if rnd.random() < 0.25:
            i = rnd.randrange(len(items))
            fam.append(sorted(items[i]))
            continue
        i, j = rnd.sample(range(len(items)), 2)
        if rnd.random() < 0.6:
            i = rnd.randrange(len(items) - 1)
            its = sorted(items, key=min)
            a, b = its[i], its[i + 1]
            items = [x for x in items if x is not a and x is not b]
        else:
            a, b = items[i], items[j]
            items = [x for k, x in enumerate(items) if k not in (i, j)]
        m = sorted(a + b)
        fam.append(m)
        items.append(m)
    if rnd.random() < 0.5 or not fam:
        fam.append(list(range(1, n + 1)))
    order = {}
    fam.sort(key=lambda y: -len(y))
    for Y in fam:
        k = order.get(tuple(Y), 0) + 1
        order[tuple(Y)] = k
        nodes.append({'y': Y, 'k': k, 'tok': False, 'a': treeio.attr(lab=lab(), edge='--')})
    nodes[0]['a']['lab'] = 'VROOT'
    for p in range(1, n + 1):
        nodes.append({'y': [p], 'k': 99, 'tok': True,
                      'a': treeio.attr(lab='T%d' % p, word='w%d' % p, edge='--', lemma='--', morph='--')})
    for x in nodes:
        x['d'] = sum(1 for a in nodes if treeio._dom_k(a, x))
    for x in nodes:
        del x['k']
    T = {'n': n, 'nodes': nodes}
    mark_heads(T, rnd)
    return T


def mark_heads(T, rnd):
    nodes = T['nodes']
    for x in nodes:
        x['a']['head'] = 'F'
    for x in nodes:
        if x['tok']:
            continue
        kids = [c for c in nodes if treeio.dominates(x, c) and c['d'] == x['d'] + 1]
        if kids:
            rnd.choice(kids)['a']['head'] = 'T'


def gapdeg(T):
    def runs(y):
        return sum(1 for i, p in enumerate(y) if i == 0 or y[i - 1] + 1 < p)
    return max(runs(sorted(x['y'])) - 1 for x in T['nodes'])


def run(prop, tier, seed, replay=None):
    mods = treeio.repo_modules()
    rep = core.Report(prop, tier, seed)
    dev = sorted({f['deviation'] for f in core.load_findings()['findings'] if f.get('deviation')})
    with core.Work('trn') as w:
        for m in ('MC_Transitions', 'MC_GapAutomaton', 'Trace_Transitions'):
            core.sany(w, m)
        cases = []
        if replay:
            doc = json.load(open(replay))
            cases = [doc['case']]
        else:
            todo = []
            seen = set()
            for b in BOUNDS[tier]:
                r = core.tlc(w, 'MC_Transitions', CFG % dict(b, dev='', emit='INVARIANT Emit'), coverage=True, timeout=3000)
                core.tlc_ok(r, 'MC_Transitions %s' % b)
                rep.add_mc('MC_Transitions %s' % json.dumps(b, sort_keys=True), r,
                           'all head-marked trees within bounds; oracle output executed by the automaton rebuilds the tree')
                for c in r.cases:
                    key = json.dumps(c['tree'], sort_keys=True)
                    if key in seen:
                        continue
                    seen.add(key)
                    for s in sorted(c['systems']):
                        todo.append(('X-%06d-%s' % (len(seen), s), c['tree'], s, None, seed + len(seen)))
            # non-vacuity: each deviation recorded against C10 must be found by TLC on the model
            nv = {}
            for d in ('gap_pushback_reversed', 'gap_unary_after_termination'):
                rv = core.tlc(w, 'MC_Transitions', CFG % dict(N=4, MaxCons=4, MaxChain=2, MaxKids=2,
                                                             dev='"%s"' % d, emit=''), timeout=900)
                if 'InvOracles' not in rv.violated:
                    raise core.MachineryError('non-vacuity: Dev={%s} not detected' % d)
                nv[d] = 'InvOracles violated as required'
            rep.extra['nonvacuity'] = nv
            for sys_, n, steps in (('gap', 3, 9), ('topdown', 3, 7), ('inorder', 3, 8)):
                ra = core.tlc(w, 'MC_GapAutomaton', CFG_AUTO % dict(N=n, Sys=sys_, MaxSteps=steps), timeout=900)
                core.tlc_ok(ra, 'MC_GapAutomaton %s' % sys_)
                rep.add_mc('MC_GapAutomaton %s N=%d steps<=%d' % (sys_, n, steps), ra,
                           'every transition sequence of the automaton alone; complete runs build trees')
            rep.exhaustive = True
            rnd = random.Random(seed)
            for k in range(300 if tier == 'quick' else 4000):
                T = random_binarized(rnd, 8 if tier == 'quick' else 11)
                systems = ['gap'] + (['topdown', 'inorder'] if gapdeg(T) == 0 else [])
                for s in systems:
                    todo.append(('R-%05d-%s' % (k, s), T, s, None, seed + k, 'random'))
            for k in range(150 if tier == 'quick' else 1500):
                T = treeio.random_tree(rnd, nmax=8, maxcons=6, disc=0.0, labels=('S', 'NP', 'VP'))
                mark_heads(T, rnd)
                todo.append(('A-%05d-inorder' % k, T, 'inorder', None, seed + k, 'random'))
            cases = core.pmap(fx.record_case, todo)
            # the command line: tree file -> transformations -> oracle -> file (binarization done by the tool)
            cli = []
            for k in range(24 if tier == 'quick' else 300):
                T = treeio.random_tree(rnd, nmax=7, maxcons=5, labels=('S', 'NP', 'VP'), edges=('HD', '--', 'NK'),
                                       tokedges=('--', 'HD', 'NK'), tags=('NN', 'VB'), disc=0.5)
                for x in T['nodes']:
                    if not x['tok']:
                        x['a']['lemma'], x['a']['morph'] = '--', '--'
                sys_ = 'gap' if gapdeg(T) > 0 else rnd.choice(['gap', 'topdown', 'inorder'])
                cli.append(('CLI-%04d-%s' % (k, sys_), T, sys_, seed + k))
            cases += core.pmap(fx.record_cli_case, cli, chunksize=2) if len(cli) >= 200 else [fx.record_cli_case(*a) for a in cli]
        byid = {c['id']: c for c in cases}
        verdicts, wall = core.validate_traces(w, 'Trace_Transitions', cases,
                                              cfg=TRACE_CFG % (dev_text(dev), 'preserve'), chunk=1500)
        rep.extra['trace_validation_wall_s'] = round(wall, 1)
        # the same traces under the oracle's own push-back order (reported, not judged)
        gapcases = [c for c in cases if c['sys'] == 'gap']
        v2, _ = core.validate_traces(w, 'Trace_Transitions', gapcases,
                                     cfg=TRACE_CFG % (dev_text(dev), 'reverse'), chunk=1500, tag='rv')
        rep.extra['gap_cases_failing_under_reverse_pushback'] = sum(
            1 for v in v2.values() if any(f[0] in ('C10.rebuilds', 'C10.enabled', 'C10.single_item') for f in v['failed']))
        rep.extra['fidelity_mismatches'] = sum(1 for v in verdicts.values() if v.get('fidelity'))
        rep.judge(byid, verdicts, site_of=lambda c, s: c['sys'])
        rep.rule = ('TLC builds every head-marked tree within the bounds (binarized for topdown/gap, arity <= MaxKids '
                    'for inorder; unary nodes anywhere; all head-side choices), checks oracle+automaton on the model, and '
                    'every tree is given to the real oracles; the emitted transition list is validated step by step by '
                    'the TLA+ automaton; plus seeded random trees up to 8/11 tokens. non-trivial = more than one token and '
                    'one constituent')
        rep.samples = [slim(cases[len(cases) // 3]), slim(cases[-1])] if cases else []
        rep.assumptions = ['TLC, SANY, CommunityModules Json', 'harness graph dump',
                           'transition names are split lexically into (type, side, label)',
                           'gap automaton = the published one (deque pushed back in order), DESIGN 6/C10']
        return rep.finish(byid)


def slim(case):
    return {k: v for k, v in case.items() if k != 'tree'}

"""Core of the verification harness: running TLC (model checking and batch trace
validation), collecting CASE / VERDICT lines, known findings, evidence files.

Python never judges a property here: it runs TLC, parses what TLC printed, and
matches failed clause names against /verif/known_findings.json.
"""
import json
import os
import re
import shutil
import subprocess
import sys
import tempfile
import time
from concurrent.futures import ThreadPoolExecutor

VERIF = os.path.dirname(os.path.dirname(os.path.abspath(__file__)))
SPEC = os.path.join(VERIF, 'spec')
REPO = os.environ.get('TREETOOLS_REPO', '/repo')
VENV_PY = os.environ.get('TREETOOLS_PY', '/venv/bin/python')
NCPU = os.cpu_count() or 4


UNDEFINED = {}     # trace module -> ids of cases on which TLC could not evaluate the specification


class MachineryError(Exception):
    """exit 2: the framework itself failed (never a property verdict)."""


def log(*a):
    print(*a, file=sys.stderr, flush=True)


# --------------------------------------------------------------------------
# work directories
class Work(object):
    """A scratch directory holding symlinks to every spec module plus generated
    modules / cfgs / trace chunks; removed on close."""

    def __init__(self, tag):
        self.dir = tempfile.mkdtemp(prefix='vf_%s_' % tag)
        for fn in os.listdir(SPEC):
            if fn.endswith('.tla') or fn.endswith('.cfg'):
                os.symlink(os.path.join(SPEC, fn), os.path.join(self.dir, fn))

    def write(self, name, text):
        p = os.path.join(self.dir, name)
        if os.path.islink(p):
            os.unlink(p)
        with open(p, 'w') as f:
            f.write(text)
        return p

    def path(self, name):
        return os.path.join(self.dir, name)

    def close(self):
        shutil.rmtree(self.dir, ignore_errors=True)

    def __enter__(self):
        return self

    def __exit__(self, *a):
        self.close()


# --------------------------------------------------------------------------
# TLC
class TLCResult(object):
    def __init__(self):
        self.rc = None
        self.out = ''
        self.generated = 0
        self.distinct = 0
        self.cases = []
        self.verdicts = []
        self.info = []
        self.errors = []
        self.coverage = {}
        self.wall = 0.0
        self.violated = []     # invariant / property names TLC reported violated
        self.depth = 0


_RE_STATES = re.compile(r'(\d+) states generated, (\d+) distinct states found')
_RE_SIMSTATES = re.compile(r'The number of states generated: (\d+)')
_RE_DEPTH = re.compile(r'The depth of the complete state graph search is (\d+)')
_RE_INV = re.compile(r'Invariant (\S+) is violated')
_RE_PROP = re.compile(r'(?:Action property|Temporal properties|property) (\S+)? ?(?:is|were) violated')
_RE_COV = re.compile(r'^<(\w+) line (\d+), col (\d+) to line (\d+), col (\d+) of module (\w+)>: (\d+):(\d+)')


def parse_tlc_output(text, res):
    for line in text.splitlines():
        if line.startswith('"'):
            try:
                s = json.loads(line)
            except ValueError:
                res.errors.append('unparsable printed line: %s' % line[:200])
                continue
            if s.startswith('CASE '):
                res.cases.append(json.loads(s[5:]))
            elif s.startswith('VERDICT '):
                res.verdicts.append(json.loads(s[8:]))
            elif s.startswith('INFO '):
                res.info.append(json.loads(s[5:]))
            continue
        m = _RE_STATES.search(line)
        if m:
            res.generated, res.distinct = int(m.group(1)), int(m.group(2))
            continue
        m = _RE_SIMSTATES.search(line)
        if m:
            res.generated = int(m.group(1))
            res.distinct = max(res.distinct, 0)
            continue
        m = _RE_DEPTH.search(line)
        if m:
            res.depth = int(m.group(1))
        m = _RE_INV.search(line)
        if m:
            res.violated.append(m.group(1))
        if 'is violated' in line and not _RE_INV.search(line):
            res.violated.append(line.strip())
        m = _RE_COV.match(line)
        if m:
            key = '%s@%s:%s' % (m.group(1), m.group(6), m.group(2))
            res.coverage[key] = (int(m.group(7)), int(m.group(8)))
        if line.startswith('Error:') or 'Parsing or semantic analysis failed' in line \
                or line.startswith('*** Errors') or 'TLC threw an unexpected exception' in line \
                or 'Deadlock reached' in line or line.startswith('Error evaluating') \
                or 'Assumption' in line and 'is false' in line:
            res.errors.append(line.strip())


def tlc(work, module, cfg, workers=None, timeout=3600, env=None, extra=None,
        coverage=False, simulate=None, seed=None, depth=None, deque=False, heap='8g'):
    """Run TLC on work/<module>.tla with config text `cfg`. Returns TLCResult."""
    cfgname = '%s__run.cfg' % module
    work.write(cfgname, cfg)
    meta = tempfile.mkdtemp(prefix='meta_', dir=work.dir)
    cmd = ['tlc', '-workers', str(workers or NCPU), '-metadir', meta,
           '-noGenerateSpecTE', '-config', cfgname]
    if coverage:
        cmd += ['-coverage', '1']
    if simulate:
        cmd += ['-simulate', simulate]
        if depth:
            cmd += ['-depth', str(depth)]
    if seed is not None:
        cmd += ['-seed', str(seed)]
    if extra:
        cmd += extra
    cmd += ['%s.tla' % module]
    e = dict(os.environ)
    e.pop('JAVA_TOOL_OPTIONS', None)
    jopts = ['-Xss16m', '-Xmx' + heap]
    if deque:
        jopts.append('-Dtlc2.tool.queue.IStateQueue=StateDeque')
    e['JAVA_TOOL_OPTIONS'] = ' '.join(jopts)
    if env:
        e.update(env)
    res = TLCResult()
    t0 = time.time()
    try:
        p = subprocess.run(cmd, cwd=work.dir, env=e, stdout=subprocess.PIPE,
                           stderr=subprocess.STDOUT, timeout=timeout)
        res.rc = p.returncode
        res.out = p.stdout.decode('utf-8', 'replace')
    except subprocess.TimeoutExpired as ex:
        res.rc = -9
        res.out = (ex.stdout or b'').decode('utf-8', 'replace')
        res.errors.append('TLC timeout after %ds' % timeout)
        subprocess.run(['pkill', '-f', meta], check=False)
    res.wall = time.time() - t0
    parse_tlc_output(res.out, res)
    shutil.rmtree(meta, ignore_errors=True)
    return res


def tlc_ok(res, what):
    """Raise MachineryError unless the TLC run completed without any error."""
    if res.rc != 0 or res.errors or res.violated:
        os.makedirs(os.path.join(VERIF, 'out'), exist_ok=True)
        name = 'last_tlc_error.%s.log' % re.sub(r'[^A-Za-z0-9_]+', '_', what)[:40]
        with open(os.path.join(VERIF, 'out', name), 'w') as f:
            # without the emitted cases (they can be gigabytes), at most 4 MB
            log = '\n'.join(ln for ln in res.out.splitlines() if not ln.startswith('"CASE'))
            f.write(log if len(log) < 4000000 else log[:2000000] + '\n...\n' + log[-2000000:])
        tail = '\n'.join([ln for ln in res.out.splitlines() if not ln.startswith('  |') and not ln.startswith('"CASE')][-40:])
        raise MachineryError('%s: TLC rc=%s errors=%s violated=%s (full log: out/%s)\n%s'
                             % (what, res.rc, res.errors[:5], res.violated[:5], name, tail))


def apalache(work, module, inv, length=0, timeout=1800, init='Init', nxt='Next'):
    """Run the symbolic model checker Apalache on work/<module>.tla (module and everything it
    extends carry @type annotations). Returns (outcome, wall, output); outcome is 'NoError',
    'Error' (a counterexample to `inv` exists) or 'Failed' (anything else: machinery)."""
    out_dir = tempfile.mkdtemp(prefix='apa_', dir=work.dir)
    cmd = ['apalache-mc', 'check', '--init=' + init, '--next=' + nxt, '--inv=' + inv,
           '--length=%d' % length, '--out-dir=' + out_dir, '%s.tla' % module]
    e = dict(os.environ)
    e.pop('JAVA_TOOL_OPTIONS', None)
    e['JVM_ARGS'] = '-Xmx6g'
    t0 = time.time()
    try:
        p = subprocess.run(cmd, cwd=work.dir, env=e, stdout=subprocess.PIPE, stderr=subprocess.STDOUT,
                           timeout=timeout)
        out = p.stdout.decode('utf-8', 'replace')
    except subprocess.TimeoutExpired as ex:
        out = (ex.stdout or b'').decode('utf-8', 'replace') + '\nTIMEOUT'
        subprocess.run(['pkill', '-f', out_dir], check=False)
    wall = time.time() - t0
    shutil.rmtree(out_dir, ignore_errors=True)
    if 'The outcome is: NoError' in out and 'EXITCODE: OK' in out:
        return 'NoError', wall, out
    if 'The outcome is: Error' in out and 'EXITCODE: ERROR (12)' in out:
        return 'Error', wall, out
    return 'Failed', wall, out


def sany(work, module):
    p = subprocess.run(['tla-sany', '%s.tla' % module], cwd=work.dir,
                       stdout=subprocess.PIPE, stderr=subprocess.STDOUT)
    out = p.stdout.decode('utf-8', 'replace')
    if p.returncode != 0 or '*** Errors' in out or 'Fatal errors' in out \
            or 'Could not find module' in out or 'Parse Error' in out:
        raise MachineryError('SANY failed on %s:\n%s' % (module, out[-3000:]))
    # two modules EXTENDed side by side must not define the same name differently: SANY only
    # warns and silently keeps one of them
    clash = set(re.findall(r"Warning: the (?:definition|declaration) of '(\w+)' conflicts", out)) - {'F', 'Dev'}
    if clash:
        raise MachineryError('SANY: conflicting definitions in %s: %s' % (module, sorted(clash)))


# --------------------------------------------------------------------------
# batch trace validation
def validate_traces(work, module, cases, header=None, cfg=None, chunk=1500,
                    procs=None, workers=None, timeout=3600, tag='tr'):
    """Validate recorded cases with the trace specification `module`.

    Every case must come back with exactly one VERDICT line (id echoed);
    otherwise the run is a machinery failure. Returns dict id -> verdict."""
    if not cases:
        return {}, 0.0
    cfg = cfg or 'INIT TInit\nNEXT TNext\nCHECK_DEADLOCK FALSE\n'
    chunks = [cases[i:i + chunk] for i in range(0, len(cases), chunk)]
    procs = procs or min(len(chunks), max(1, NCPU // 4))
    workers = workers or max(2, NCPU // procs)
    files = []
    for k, ch in enumerate(chunks):
        doc = dict(header or {})
        doc['cases'] = ch
        fn = work.path('%s_%04d.json' % (tag, k))
        with open(fn, 'w') as f:
            json.dump(doc, f)
        files.append(fn)
    verdicts = {}
    t0 = time.time()

    def one(fn):
        sub = Work('tv')
        try:
            # generated modules of the parent work dir must be visible
            for g in os.listdir(work.dir):
                if g.endswith('.tla') and not os.path.exists(sub.path(g)):
                    os.symlink(work.path(g), sub.path(g))
            r = tlc(sub, module, cfg, workers=workers, timeout=timeout,
                    env={'TRACE_FILE': fn}, heap='5g')
            return r
        finally:
            sub.close()

    undefined = []

    def solve(fn, ch, depth=0):
        """validate one chunk; if TLC fails while evaluating it, bisect down to the offending cases so that the
        verdicts of all other cases are still obtained (an operator undefined on an observed state must not hide
        what the rest of the run shows)"""
        r = one(fn)
        if r.rc == 0 and not r.errors:
            return list(r.verdicts)
        if 'Parsing or semantic analysis failed' in r.out or r.rc == -9 or 'OutOfMemoryError' in r.out \
                or len(undefined) > 25:
            os.makedirs(os.path.join(VERIF, 'out'), exist_ok=True)
            with open(os.path.join(VERIF, 'out', 'last_tlc_error.log'), 'w') as f_:
                f_.write(r.out)
            raise MachineryError('trace validation (%s) failed on %s: rc=%s %s'
                                 % (module, fn, r.rc, r.errors[:3]))
        if len(ch) == 1:
            os.makedirs(os.path.join(VERIF, 'out'), exist_ok=True)
            with open(os.path.join(VERIF, 'out', 'last_tlc_error.log'), 'w') as f_:
                f_.write(r.out)
            shutil.copy(fn, os.path.join(VERIF, 'out', 'last_trace_chunk.json'))
            undefined.append(ch[0]['id'])
            return [{'id': ch[0]['id'], 'failed': [], 'tags': [], 'nontrivial': False, 'undefined': True}]
        out = []
        mid = len(ch) // 2
        for part_no, part in enumerate((ch[:mid], ch[mid:])):
            doc = dict(header or {})
            doc['cases'] = part
            fn2 = '%s.%d%d.json' % (fn[:-5], depth, part_no)
            with open(fn2, 'w') as f:
                json.dump(doc, f)
            out.extend(solve(fn2, part, depth + 1))
        return out

    with ThreadPoolExecutor(max_workers=procs) as ex:
        results = list(ex.map(lambda a: solve(a[0], a[1]), zip(files, chunks)))
    for vs in results:
        for v in vs:
            if v['id'] in verdicts:
                # TLC may evaluate an action twice; identical verdicts are fine
                if verdicts[v['id']] != v:
                    raise MachineryError('two different verdicts for %s' % v['id'])
            verdicts[v['id']] = v
    UNDEFINED[module] = undefined
    missing = [c['id'] for c in cases if c['id'] not in verdicts]
    if missing:
        raise MachineryError('trace validation (%s): %d cases without verdict, e.g. %s'
                             % (module, len(missing), missing[:3]))
    return verdicts, time.time() - t0


# --------------------------------------------------------------------------
# known findings
def load_findings():
    p = os.path.join(VERIF, 'known_findings.json')
    if not os.path.exists(p):
        return {'findings': [], 'fixed': []}
    with open(p) as f:
        return json.load(f)


def match_finding(findings, prop, clause, site, tags):
    """A failed (clause, site) of a case with witness `tags` is covered by an
    entry iff property, clause and site are equal and the entry's tags are a
    subset of the case's tags."""
    for e in findings:
        if e['property'] != prop or e['clause'] != clause:
            continue
        if e.get('site', '*') not in ('*', site):
            continue
        if set(e.get('tags', [])) <= set(tags):
            return e
    return None


# --------------------------------------------------------------------------
class Report(object):
    """Accumulates the outcome of one check run and writes evidence."""

    def __init__(self, prop, tier, seed):
        self.prop = prop
        self.tier = tier
        self.seed = seed
        self.t0 = time.time()
        self.states = 0
        self.transitions = 0
        self.traces = 0
        self.nontrivial = set()
        self.samples = []
        self.violations = []      # (clause, site, case)
        self.known = {}           # entry-what -> count
        self.extra = {}
        self.mc_runs = []
        self.assumptions = []
        self.exhaustive = False
        self.rule = ''
        self.evaluations = 0

    def add_mc(self, name, res, note=''):
        self.states += res.distinct
        self.transitions += res.generated
        self.mc_runs.append({'model': name, 'distinct_states': res.distinct,
                             'states_generated': res.generated, 'depth': res.depth,
                             'wall_s': round(res.wall, 1), 'note': note,
                             'coverage_actions': {k: list(v) for k, v in
                                                  sorted(res.coverage.items())[:40]}})

    def judge(self, cases_by_id, verdicts, site_of=None, clause_filter=None):
        """Turn VERDICT lines into violations / known findings for this property.

        verdict = {id, failed: [[clause, step], ...], tags: [...], nontrivial: bool,
                   fidelity: [...]}"""
        findings = load_findings()['findings']
        for cid, v in verdicts.items():
            self.traces += 1
            if v.get('nontrivial'):
                self.nontrivial.add(cid)
            for item in v.get('failed', []):
                clause, step = item[0], item[1]
                if clause_filter and not clause_filter(clause):
                    continue
                site = site_of(cases_by_id[cid], step) if site_of else '*'
                e = match_finding(findings, self.prop, clause, site, v.get('tags', []))
                if e is not None:
                    self.known[e['what']] = self.known.get(e['what'], 0) + 1
                else:
                    self.violations.append((clause, site, step, cid))

    def finish(self, cases_by_id, replay_cmd=None):
        wall = time.time() - self.t0
        outdir = os.path.join(VERIF, 'out', 'replay', self.prop)
        lines = []
        for what, n in sorted(self.known.items()):
            lines.append('KNOWN-FINDING: property=%s %s (%d cases)' % (self.prop, what, n))
        seen = {}
        for clause, site, step, cid in self.violations:
            key = (clause, site)
            seen.setdefault(key, []).append((step, cid))
        nviol = 0
        for (clause, site), lst in sorted(seen.items()):
            os.makedirs(outdir, exist_ok=True)
            step, cid = lst[0]
            fn = os.path.join(outdir, '%s__%s.json' % (clause.replace('/', '_'), cid))
            with open(fn, 'w') as f:
                json.dump({'property': self.prop, 'clause': clause, 'site': site,
                           'step': step, 'count': len(lst), 'case': cases_by_id.get(cid)}, f, indent=1)
            lines.append('VIOLATION property=%s replay=%s clause=%s site=%s cases=%d'
                         % (self.prop, fn, clause, site, len(lst)))
            nviol += 1
        cov = {
            'states': int(self.states), 'transitions': int(self.transitions),
            'traces_validated_against_impl': int(self.traces),
            'evaluations': int(self.evaluations or self.traces),
            'distinct_nontrivial': len(self.nontrivial),
            'rule': self.rule,
            'samples': self.samples[:4] or ['(no sample recorded)'],
            'exhaustive': bool(self.exhaustive),
            'model_checking_runs': self.mc_runs,
            'known_findings_hit': self.known,
            'violating_clauses': sorted(set('%s@%s' % (c, s) for (c, s) in seen)),
        }
        cov.update(self.extra)
        ev = {'property_id': self.prop, 'tier': self.tier, 'seed': int(self.seed),
              'level': 'model_checking', 'coverage': cov,
              'assumptions': self.assumptions, 'wall_s': round(wall, 2),
              'violations': nviol}
        # runs against a changed tree (seeded changes) must not overwrite the evidence of the unchanged tree
        evdir = os.environ.get('VERIF_EVIDENCE_DIR') or os.path.join(VERIF, 'evidence')
        os.makedirs(evdir, exist_ok=True)
        with open(os.path.join(evdir, '%s.json' % self.prop), 'w') as f:
            json.dump(ev, f, indent=1, sort_keys=True)
        for ln in lines:
            print(ln)
        sys.stdout.flush()
        undef = [i for ids in UNDEFINED.values() for i in ids]
        if undef:
            log('specification not evaluable on %d recorded cases, e.g. %s (see out/last_tlc_error.log)' % (len(undef), undef[:3]))
            if not nviol:
                raise MachineryError('specification not evaluable on recorded cases %s' % undef[:5])
        return 1 if nviol else 0


# --------------------------------------------------------------------------
def tla(v):
    """Python value -> TLA+ expression text (str, bool, int, list/tuple -> <<>>,
    set/frozenset -> {}, dict -> record)."""
    if isinstance(v, bool):
        return 'TRUE' if v else 'FALSE'
    if isinstance(v, int):
        return str(v)
    if isinstance(v, str):
        return '"' + v.replace('\\', '\\\\').replace('"', '\\"') + '"'
    if isinstance(v, (list, tuple)):
        return '<<' + ', '.join(tla(x) for x in v) + '>>'
    if isinstance(v, (set, frozenset)):
        return '{' + ', '.join(sorted(tla(x) for x in v)) + '}'
    if isinstance(v, dict):
        return '[' + ', '.join('%s |-> %s' % (k, tla(x)) for k, x in sorted(v.items())) + ']'
    raise TypeError(v)


def gen_module(work, name, extends, defs):
    """Write a generated root module `name` EXTENDS `extends` with definitions defs
    (dict name -> python value or raw TLA text wrapped in Raw)."""
    lines = ['---- MODULE %s ----' % name, 'EXTENDS %s' % ', '.join(extends)]
    for k, v in defs.items():
        lines.append('%s == %s' % (k, v.text if isinstance(v, Raw) else tla(v)))
    lines.append('====')
    work.write('%s.tla' % name, '\n'.join(lines) + '\n')


class Raw(object):
    def __init__(self, text):
        self.text = text


# --------------------------------------------------------------------------
_PMAP_FN = None


def _pmap_call(args):
    return _PMAP_FN(*args)


def pmap(fn, arglist, procs=None, chunksize=64, minpar=200):
    """Run fn(*args) for every args tuple, in forked worker processes (the repository
    modules already imported in the parent are inherited). Order is preserved."""
    global _PMAP_FN
    arglist = list(arglist)
    if len(arglist) < minpar:
        return [fn(*a) for a in arglist]
    import multiprocessing as mp
    _PMAP_FN = fn
    ctx = mp.get_context('fork')
    with ctx.Pool(procs or NCPU) as pool:
        return pool.map(_pmap_call, arglist, chunksize=chunksize)

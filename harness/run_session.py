"""Checks C03 (any-to-any conversion through the command line) and the distribution
part of C17 (`--split`)."""
import json
import random

from . import core, treeio, fam_io, fam_cli
from .run_writers import kind, LENKINDS
from .run_readers import gapdeg

ch = treeio.chars
SRCF = ['export', 'brackets', 'discobrackets', 'tigerxml']
DESTF = ['export', 'brackets', 'discobrackets', 'tigerxml', 'terminals']
CFG_S = """CONSTANTS Corpora <- c_Corpora
 SrcSets <- c_SrcSets
 Specs <- c_Specs
 Filters <- c_Filters
 DestFmts = {"export", "brackets"}
 Dev = {%s}
INIT Init
NEXT Next
INVARIANT InvC03
INVARIANT InvC17
INVARIANT InvDone
%s
CHECK_DEADLOCK FALSE
"""
CFG_R = """CONSTANTS N = %(N)d
 MaxCons = %(MaxCons)d
 MaxChain = %(MaxChain)d
 TokKinds <- c_TokKinds
 CLabels <- c_CLabels
 CEdges <- c_CEdges
 Jobs <- c_Jobs
 BrTab <- c_BrTab
 Dev = {}
INIT Init
NEXT Next
INVARIANT Emit
CHECK_DEADLOCK FALSE
"""
TRACE_CFG = 'CONSTANTS Dev = {}\nINIT TInit\nNEXT TNext\nCHECK_DEADLOCK FALSE\n'


def session_defs(tier):
    def t(i, n, d):
        return '[id |-> "%s", len |-> %d, disc |-> %s]' % (i, n, 'TRUE' if d else 'FALSE')
    cA = '<<%s, %s, %s>>' % (t('a', 1, False), t('b', 3, True), t('c', 2, False))
    cB = '<<%s>>' % t('d', 2, False)
    cC = '<<>>'
    cD = '<<%s, %s, %s, %s>>' % (t('e', 3, False), t('f', 2, False), t('g', 1, False), t('h', 3, False))
    specs = ['<<>>', '<<[k |-> "abs", n |-> 1], [k |-> "rest", n |-> 0]>>',
             '<<[k |-> "pct", n |-> 50], [k |-> "pct", n |-> 50]>>', '<<[k |-> "abs", n |-> 5]>>',
             '<<[k |-> "bad", n |-> 0]>>', '<<[k |-> "pct", n |-> 34], [k |-> "rest", n |-> 0], [k |-> "abs", n |-> 1]>>']
    return {'c_Corpora': core.Raw('{%s, %s, %s, %s}' % (cA, cB, cC, cD)),
            'c_SrcSets': core.Raw('{<<%s>>, <<%s>>, <<%s>>, <<%s>>, <<%s, %s>>, <<%s, %s>>}' % (cA, cB, cC, cD, cA, cB, cD, cB)),
            'c_Specs': core.Raw('{' + ', '.join(specs) + '}'),
            'c_Filters': core.Raw('{[on |-> FALSE, op |-> "lt", val |-> 0], [on |-> TRUE, op |-> "lt", val |-> 2], '
                                  '[on |-> TRUE, op |-> "gt", val |-> 2]}')}


CFG_O = """CONSTANTS Alphabet = {"a", "b", ":", "0", "2"}
 L = %d
 MaxOpts = %d
INIT Init
NEXT Next
INVARIANT Inv
INVARIANT Emit
CHECK_DEADLOCK FALSE
"""


def record_options_case(cid, opts):
    mods = treeio.repo_modules()
    strs = [''.join(o) for o in opts]
    c = {'id': cid, 'origin': 'tlc', 'opts': opts, 'out': [], 'res': 'ok', 'events': []}
    try:
        d = mods['misc'].options_dict(strs)
        for k, v in d.items():
            if v is True:
                c['out'].append({'k': ch(k), 't': 'true', 'v': 0, 's': []})
            elif isinstance(v, int) and not isinstance(v, bool):
                c['out'].append({'k': ch(k), 't': 'int', 'v': v, 's': []})
            else:
                c['out'].append({'k': ch(k), 't': 'str', 'v': 0, 's': ch(v) if isinstance(v, str) else ['?']})
    except Exception as ex:
        c['res'] = 'exc'
    return c


def site_of(case, step):
    if 'opts' in case and 'srcfmt' not in case:
        return 'options_dict'
    if 1 <= step <= len(case['events']):
        return '%s->%s:%s' % (case['srcfmt'], case['destfmt'], case['events'][step - 1]['a'])
    return '*'


def run(prop, tier, seed, replay=None, rep=None, finish=True):
    mods = treeio.repo_modules()
    cfgc = fam_io.export_config(mods)
    rep = rep or core.Report(prop, tier, seed)
    rnd = random.Random(seed)
    want = (lambda c: c.startswith(prop + '.'))
    with core.Work('ses') as w:
        core.sany(w, 'Trace_Session')
        core.sany(w, 'Trace_Options')
        core.sany(w, 'MC_Options')
        cases = []
        if replay:
            cases = [json.load(open(replay))['case']]
        else:
            core.gen_module(w, 'MCS', ['MC_Session'], session_defs(tier))
            r = core.tlc(w, 'MCS', CFG_S % ('', 'INVARIANT Emit'), coverage=True, timeout=1200)
            core.tlc_ok(r, 'MC_Session')
            rep.add_mc('MC_Session', r, 'every argument record (file/directory x split spec x filter x dest format): '
                       'C03ok (framing, order, totality) and C17ok (distribution) on every finished run')
            nv = core.tlc(w, 'MCS', CFG_S % ('"split_parts_unframed"', ''), timeout=600)
            if 'InvC17' not in nv.violated:
                raise core.MachineryError('non-vacuity: split_parts_unframed not detected by InvC17')
            rep.extra['nonvacuity'] = {'split_parts_unframed': 'InvC17 violated as required'}
            structs = []
            seen = set()
            for c in r.cases:
                k = json.dumps(c, sort_keys=True)
                if k not in seen:
                    seen.add(k)
                    structs.append(c)
            # concrete trees
            kinds = [kind('w', sfx=True), kind('a&b'), kind(u'Üb', sfx=True), kind('#5000'), kind(u'1\u00a00'), LENKINDS[0], LENKINDS[4]] + \
                ([kind('x' * 8)] + LENKINDS[1:4] if tier != 'quick' else [])
            m = dict(N=3, MaxCons=2, MaxChain=1) if tier == 'quick' else dict(N=3, MaxCons=3, MaxChain=2)
            core.gen_module(w, 'MCR', ['MC_Readers'], {
                'c_TokKinds': core.Raw('{' + ', '.join(core.tla(x) for x in kinds) + '}'),
                # (XML-special characters also in category and edge labels: TIGER-XML attributes)
                'c_CLabels': core.Raw('{' + ', '.join(core.tla(ch(x)) for x in ['NP', 'S', 'N"&<P']) + '}'),
                'c_CEdges': core.Raw('{' + ', '.join(core.tla(ch(x)) for x in ['HD', '--', 'O"A']) + '}'),
                'c_Jobs': core.Raw('{[fmt |-> "any", o |-> {}, sep |-> "-"]}'), 'c_BrTab': cfgc['brtab']})
            r2 = core.tlc(w, 'MCR', CFG_R % m, timeout=1800)
            core.tlc_ok(r2, 'MC_Readers(pool)')
            rep.add_mc('MC_Readers (tree pool) %s' % json.dumps(m, sort_keys=True), r2, 'concrete trees for the runs')
            pool = {}
            for c in r2.cases:
                T = c['tree']
                pool.setdefault((T['n'], gapdeg(T) > 0), []).append(T)
            args = []
            pairs = [(s, d) for s in SRCF for d in DESTF]
            reps = 2 if tier == 'quick' else 6
            k = 0
            for rep_i in range(reps):
                for st in structs:
                    if prop == 'C17' and not st['split']:
                        continue
                    if prop == 'C03' and st['split'] and rep_i > 0:
                        continue
                    srcfmt, destfmt = pairs[k % len(pairs)]
                    if st['destfmt'] == 'brackets':
                        destfmt = 'brackets'
                    elif destfmt == 'brackets':
                        destfmt = 'export'
                    disc = any(t['disc'] for c_ in st['src'] for t in c_)
                    if disc and srcfmt == 'brackets':
                        srcfmt = rnd.choice(['export', 'tigerxml', 'discobrackets'])
                    corpora = []
                    ok = True
                    for c_ in st['src']:
                        Ts = []
                        for t in c_:
                            cand = pool.get((t['len'], t['disc']))
                            if not cand:
                                ok = False
                                break
                            Ts.append(rnd.choice(cand))
                        corpora.append(Ts)
                    if not ok:
                        continue
                    filt = st['filt']
                    args.append(('S-%05d' % k, corpora, srcfmt, destfmt, st['split'], filt, None, seed + k))
                    k += 1
            if prop == 'C03':
                # sources whose trees lack values (TIGER-XML without the optional attributes, the bracket formats)
                # into every destination that has a field for them, with the options that add fields
                one = [st for st in structs if not st['split'] and len(st['src']) == 1 and len(st['src'][0]) >= 1
                       and not any(t['disc'] for t in st['src'][0])]
                combos = [(s_, d_, o_) for s_ in ('tigerxml', 'brackets', 'discobrackets')
                          for (d_, o_) in (('export', ['export_four']), ('export', []), ('tigerxml', []),
                                           ('export', ['gf']), ('discobrackets', ['gf']))]
                for j, (s_, d_, o_) in enumerate(combos * (2 if tier == 'quick' else 6)):
                    st = one[j % len(one)]
                    Ts = [rnd.choice(pool[(t['len'], False)]) for t in st['src'][0] if pool.get((t['len'], False))]
                    if Ts:
                        args.append(('S-%05d' % k, [Ts], s_, d_, [], st['filt'], None, seed + k, 'tlc', True,
                                     {'destopts': o_, 'tiger_missing': True}))
                        k += 1
            # the one-node tree (a one-token sentence without a wrapping root, `(NN Hello)`) among ordinary trees,
            # in the formats that can carry it
            ch_ = treeio.chars
            one = {'n': 1, 'nodes': [{'y': [1], 'd': 0, 'tok': True,
                                      'a': dict(treeio.attr(), lab=ch_('NN'), word=ch_('Hello'), lemma=ch_('--'),
                                                morph=ch_('--'), edge=ch_('--'))}]}
            some = [t_ for key_, ts_ in sorted(pool.items()) if not key_[1] for t_ in ts_[:2]][:4]
            for j, (s_, d_) in enumerate((('brackets', 'brackets'), ('brackets', 'terminals'), ('discobrackets', 'discobrackets'),
                                          ('discobrackets', 'brackets'))):
                Ts = ([some[j % len(some)]] if some else []) + [one] + ([some[(j + 1) % len(some)]] if some else []) + [one]
                sp = [{'k': 'abs', 'n': 1}, {'k': 'rest', 'n': 0}] if prop == 'C17' or j % 2 else []
                if prop == 'C17' and not sp:
                    continue
                args.append(('S-%05d' % k, [Ts], s_, d_, sp, {'on': False, 'op': 'lt', 'val': 0}, None, seed + k, 'tlc', True,
                             {'destopts': []}))
                k += 1
            rep.exhaustive = True
            cases = core.pmap(fam_cli.record_cli_case, args, chunksize=4)
        ocases = []
        if prop == 'C03' and not replay:
            ro = core.tlc(w, 'MC_Options', CFG_O % ((3, 2) if tier == 'quick' else (4, 2)), timeout=1200)
            core.tlc_ok(ro, 'MC_Options')
            rep.add_mc('MC_Options', ro, 'all option lists over {a b : 1 2}: one entry per key, last one wins')
            seen_o = set()
            for c in ro.cases:
                k_ = json.dumps(c['opts'])
                if k_ not in seen_o:
                    seen_o.add(k_)
                    ocases.append(record_options_case('O-%06d' % len(seen_o), c['opts']))
        if replay and 'srcfmt' not in cases[0]:
            ocases, cases = cases, []
        byid = {c['id']: c for c in cases}
        vo, _ = core.validate_traces(w, 'Trace_Options', ocases, cfg='INIT TInit\nNEXT TNext\nCHECK_DEADLOCK FALSE\n', chunk=20000, tag='op')
        verdicts, wall = core.validate_traces(w, 'Trace_Session', cases, header={'config': cfgc}, cfg=TRACE_CFG, chunk=300)
        rep.extra['trace_validation_wall_s'] = round(wall, 1)
        rep.extra['cli_runs'] = sum(1 for c in cases for e in c['events'] if e['a'] in ('run', 'back'))
        pairs_seen = sorted({'%s->%s' % (c['srcfmt'], c['destfmt']) for c in cases})
        rep.extra['format_pairs'] = pairs_seen
        byid.update({c['id']: c for c in ocases})
        verdicts.update(vo)
        rep.judge(byid, verdicts, site_of=site_of, clause_filter=want)
        rep.rule = (rep.rule + ' || ' if rep.rule else '') + ('TLC explores the run state machine of Session.tla for every argument record (file or 2-file directory x split '
                    'specification x length filter x destination) and emits each; each is instantiated with concrete trees from a '
                    'TLC-enumerated pool and a (source, destination) format pair by rotation (all 4x5 pairs), rendered in a seeded '
                    'encoding (utf-8/latin-1/utf-16, gzip), and run as a real `treetools transform` subprocess; the written files are '
                    'decoded by the TLA+ decoders, re-read by the reader of the tool itself, and converted back (A->B->A). '
                    'non-trivial = a run expected to succeed with at least one tree kept')
        rep.samples = (rep.samples or [])[:2] + ([slim(cases[len(cases) // 3]), slim(cases[-1])] if cases else [])
        rep.assumptions = ['TLC, SANY, CommunityModules', 'harness renderers and splitters (as for C01/C02)',
                           'interpreter /venv/bin/python, subprocess per run']
        if not finish:
            return byid
        return rep.finish(byid)


def slim(case):
    c = dict(case)
    c['trees'] = '%d source file(s), %s trees' % (len(case['trees']), [len(x) for x in case['trees']])
    c['events'] = [{k: v for k, v in e.items() if k not in ('files', 'events')} for e in case['events']]
    return c

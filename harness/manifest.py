"""Regenerates /verif/MANIFEST.json from the table below (run: python3-vt -m harness.manifest)."""
import json
import os

from . import core

BASELINE_OFF = ("cd /repo && /venv/bin/python -m pytest -ra -q -p no:cacheprovider --timeout=900 "
                "--continue-on-collection-errors")

# property -> (design_ref, text, note, technique)
CLAIMED = {
    'C19': ('6/C19', 'TLC enumerates every tree within the bounds (all laminar families with unary chains over <=4 '
            '(quick) / <=6 (thorough) tokens), checks that the set-based reference answers satisfy every clause of '
            'Nav.tla, and emits each tree; the real API is run on every node and node pair of each tree (children '
            'lists stored in several orders) and TLC validates every recorded answer against the same clauses. '
            'Exhaustive in small scope, seeded sampling up to 12 tokens beyond.',
            'TLC/SANY/CommunityModules; the mechanical graph dump and index tables of harness/treeio.py; small-scope '
            'hypothesis beyond the bounds',
            'TLA+ spec (Nav.tla) + TLC model checking + TLC trace validation of recorded API answers'),
    'C16': ('6/C16', 'Same pipeline as C19 for gap_degree_node / terminal_blocks / gap_degree on every node of every '
            'enumerated tree, clauses C16.node, C16.blocks, C16.tree of Nav.tla evaluated by TLC on the recorded answers.',
            'TLC/SANY/CommunityModules; harness graph dump; small-scope hypothesis beyond the bounds',
            'TLA+ spec (Nav.tla) + TLC model checking + TLC trace validation of recorded API answers'),
}

NOT_YET = 'check not built yet (work in progress, see DESIGN.md section 12)'


def main():
    props = [json.loads(l)['id'] for l in open(os.path.join(core.VERIF, 'properties.jsonl'))]
    checks = []
    for p in props:
        if p not in CLAIMED:
            continue
        ref, text, note, tech = CLAIMED[p]
        checks.append({
            'property_id': p,
            'quick_cmd': './check %s --tier quick' % p,
            'thorough_cmd': './check %s --tier thorough' % p,
            'evidence_file': '/verif/evidence/%s.json' % p,
            'replay_cmd_template': './check %s --replay {path}' % p,
            'engine': 'tla-harness',
            'level_claimed': {'category': 'model_checking', 'text': text, 'design_ref': 'DESIGN.md section ' + ref},
            'level_note': note,
            'technique': tech,
        })
    m = {
        'version': 1,
        'setup_cmd': './check setup',
        'hooks': {'guard': 'TREETOOLS_VERIF',
                  'enable': 'no source hooks are needed: the harness imports /repo afresh in every check and wraps '
                            'public calls from outside (linearization point = return of the public call)',
                  'baseline_off_cmd': BASELINE_OFF, 'source_commits': [], 'add_only': True},
        'engines': [{'name': 'tla-harness', 'path': '/verif/check',
                     'serves_properties': sorted(CLAIMED),
                     'kind_free_text': 'explicit TLA+ specifications (spec/*.tla) model-checked by TLC; TLC-generated cases '
                                       'replayed on the real code; recorded traces validated by TLC against the same specs'}],
        'checks': checks,
        'notes': 'see DESIGN.md; known findings in known_findings.json',
        'not_applicable': [{'property_id': p, 'reason': NOT_YET} for p in props if p not in CLAIMED],
    }
    with open(os.path.join(core.VERIF, 'MANIFEST.json'), 'w') as f:
        json.dump(m, f, indent=1)
    import jsonschema
    jsonschema.validate(m, json.load(open('/root/.vp/MANIFEST.schema.json')))
    print('MANIFEST ok: %d checks, %d not_applicable' % (len(checks), len(m['not_applicable'])))


if __name__ == '__main__':
    main()

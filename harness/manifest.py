"""Regenerates /verif/MANIFEST.json from the table below (run: python3-vt -m harness.manifest)."""
import json
import os

from . import core

BASELINE_OFF = ("cd /repo && /venv/bin/python -m pytest -ra -q -p no:cacheprovider --timeout=900 "
                "--continue-on-collection-errors")

# property -> (design_ref, text, note, technique)
CLAIMED = {
    'C19': ('6/C19', 'TLC enumerates every tree within the bounds (all laminar families with unary chains over <=4 '
            '(quick) / <=6 (thorough) tokens), checks that the set-based reference answers satisfy every clause of '
            'Nav.tla, and emits each tree; the real API is run on every node and node pair of each tree (children '
            'lists stored in several orders) and TLC validates every recorded answer against the same clauses. '
            'Exhaustive in small scope, seeded sampling up to 12 tokens beyond.',
            'TLC/SANY/CommunityModules; the mechanical graph dump and index tables of harness/treeio.py; small-scope '
            'hypothesis beyond the bounds',
            'TLA+ spec (Nav.tla) + TLC model checking + TLC trace validation of recorded API answers'),
    'C16': ('6/C16', 'Same pipeline as C19 for gap_degree_node / terminal_blocks / gap_degree on every node of every '
            'enumerated tree, clauses C16.node, C16.blocks, C16.tree of Nav.tla evaluated by TLC on the recorded answers.',
            'TLC/SANY/CommunityModules; harness graph dump; small-scope hypothesis beyond the bounds',
            'TLA+ spec (Nav.tla) + TLC model checking + TLC trace validation of recorded API answers'),
    'C20': ('6/C20', "TLC builds every string up to length 4 (quick) / 6 (thorough) over {A b 1 2 - = # ' *} (and the literal EMPTY plus extensions) and runs the stripping machine of Labels.tla one step per action, checking every C20 clause on the reference; every string is then parsed/formatted by the real code (all option combinations, every component emptied, non-default separator) and every node-attribute x output-option combination is decorated by get_label; TLC validates each recorded result against the same clauses.", 'TLC/SANY/CommunityModules; labels are handed to TLC as character sequences; random longer labels sampled', 'TLA+ spec (Labels.tla) + TLC model checking + TLC trace validation'),
    'C12': ('6/C12', 'root_attach is specified as a fold over the root children on the set-based tree (Transform.RootAttach). TLC enumerates every tree within the bounds, checks clauses on the reference, and every tree is replayed on the real function; TLC decides C12.exact (equality with the reference), only_root_children_move, attrs_unchanged, edges_stay on the recorded pointer graphs.', 'TLC/SANY/CommunityModules; the mechanical graph dump of harness/treeio.py; PUNCT/PAIRPUNCT and head-rule tables are read from the working tree; small-scope hypothesis beyond the bounds', 'TLA+ spec (Transform.tla/TransformProps.tla) + TLC model checking of reference operators + TLC trace validation of every recorded call'),
    'C05': ('6/C05', 'Declarative CrossFree (every constituent keeps its head run) and the operational BoydSplit/Raising are both in Transform.tla; TLC checks them against each other on all trees x head assignments within the bounds, and validates the recorded graphs after negra_mark_heads, boyd_split and raising (with and without root_attach) against C05.split.*, continuous, tokens, labels, identity_on_continuous, exact.', 'TLC/SANY/CommunityModules; the mechanical graph dump of harness/treeio.py; PUNCT/PAIRPUNCT and head-rule tables are read from the working tree; small-scope hypothesis beyond the bounds', 'TLA+ spec (Transform.tla/TransformProps.tla) + TLC model checking of reference operators + TLC trace validation of every recorded call'),
    'C13': ('6/C13', 'Reference folds for the three punctuation re-attachments (targets evaluated on the current tree) and the clauses verylow.sister, root.at_root, sym.only_paired_move, sym.joins_pair, nothing_else_moves (on stable node identities) checked by TLC on all trees with plain/punctuation/paired-punctuation/relative-pronoun tokens within the bounds, then on recorded runs of the real functions.', 'TLC/SANY/CommunityModules; the mechanical graph dump of harness/treeio.py; PUNCT/PAIRPUNCT and head-rule tables are read from the working tree; small-scope hypothesis beyond the bounds', 'TLA+ spec (Transform.tla/TransformProps.tla) + TLC model checking of reference operators + TLC trace validation of every recorded call'),
    'C14': ('6/C14', 'Head-outward binarization, collapsing and uncollapsing as set-level operators on character-sequence labels; clauses bin.arity, bin.only_at_nodes, bin.contract, bin.rejects_headless, col.no_unary, col.labels_joined, uncol.roundtrip, uncol.ret_is_root checked by TLC on the model (arity up to 5/6, chains up to 4) and on recorded runs.', 'TLC/SANY/CommunityModules; the mechanical graph dump of harness/treeio.py; PUNCT/PAIRPUNCT and head-rule tables are read from the working tree; small-scope hypothesis beyond the bounds', 'TLA+ spec (Transform.tla/TransformProps.tla) + TLC model checking of reference operators + TLC trace validation of every recorded call'),
    'C15': ('6/C15', 'NeGra heuristic and the Collins-style rule interpreter in Transform.tla; clauses one_head, negra.exact, rules.unique_listed, structure_unchanged checked by TLC on all edge assignments within the bounds and on recorded runs of the real head markers (rule tables exported from the working tree).', 'TLC/SANY/CommunityModules; the mechanical graph dump of harness/treeio.py; PUNCT/PAIRPUNCT and head-rule tables are read from the working tree; small-scope hypothesis beyond the bounds', 'TLA+ spec (Transform.tla/TransformProps.tla) + TLC model checking of reference operators + TLC trace validation of every recorded call'),
    'C04': ('6/C04', 'TLC explores every prerequisite-respecting sequence of up to 2 (quick) / 3 (thorough) transformations from every tree within the bounds with the reference operators, checking TreeOK, token preservation and the per-operation label bookkeeping; every (tree, sequence) is replayed on the real functions, the raw pointer graph is dumped after every call and TLC evaluates wf.root/links/nodup/nochildless/tokens, ret_is_root, tokens and labels.<op> on every recorded step.', 'TLC/SANY/CommunityModules; the mechanical graph dump of harness/treeio.py; PUNCT/PAIRPUNCT and head-rule tables are read from the working tree; small-scope hypothesis beyond the bounds', 'TLA+ spec (Transform.tla/TransformProps.tla) + TLC model checking of reference operators + TLC trace validation of every recorded call'),
    'C11': ('6/C11', "DeleteToks/PunctDelete/PtbDeleteTraces/InsertTerminals/SubstituteTerminals/filter as set-level reference operators (Transform.tla); TLC checks clauses untouched, renumbered, pruned, inserted_at, substituted, out_of_range_ignored, no_traces, no_indices, structure, filter on all trees x terminal files (indices -1, 0, valid, n+1, beyond; one or two rows; other sentence ids) x parameters within the bounds, then on recorded runs of the real functions with real temporary terminal files; ret_is_root and wf.* on the raw graphs.", 'TLC/SANY/CommunityModules; harness graph dump; the slash-annotation mode of ptb_delete_traces is not modelled (DESIGN section 9)', 'TLA+ spec (Transform.tla/TransformProps.tla) + TLC model checking + TLC trace validation'),
    'C10': ('6/C10', "The three transition systems are explicit TLA+ automata over (buffer, stack, deque) (Transitions.tla) with static oracles; TLC checks on every head-marked tree within the bounds that oracle output executed by the automaton rebuilds the tree, explores the automata alone (every transition sequence, complete runs build trees), and must find each named deviation. The transition list emitted by the real oracle IS the trace: TLC steps the automaton along it (one action per transition) and evaluates enabled, consumes_all, single_item, rebuilds, head_sides, sentence, file_line.", 'TLC/SANY/CommunityModules; harness graph dump; transition names split lexically; gap automaton taken from the cited paper (deque pushed back in order) - the code-private reversed order is a recorded known finding', 'TLA+ automata (Transitions.tla) + TLC model checking + TLC trace validation with one action per emitted transition'),
    'C06': ('6/C06', "Extraction is specified on the set-based tree (Grammar.ExtractRule: func, linearization by block scanning, vertical context); TLC checks on every tree within the bounds that the linearization instantiated with the children's blocks gives the node's blocks using every block once and in order, fan-outs, counts, flow and context-free iff continuous; each tree, alone and in treebanks with repetitions, goes through the real extract and TLC compares the dumped dicts (one_rule_per_node, func, lin_instantiates, vert, counts, lexicon, fanout, contextfree_iff_continuous).", 'TLC/SANY/CommunityModules (Bags, Json); mechanical dump of the nested grammar/lexicon dicts; small-scope hypothesis beyond the bounds', 'TLA+ spec (Grammar.tla) + TLC model checking + TLC trace validation of dumped grammar state'),
    'C07': ('6/C07', "linsub and the chain construction are transcribed as a state machine with one action per RHS element (BinStart/BinStep/BinLast); TLC builds ALL canonical LCFRS rules up to rank 4/5 and 5/7 variable occurrences and checks, for deterministic and Markovized labels and both reorderings, that the produced chain composes to the original linearization with consistent fan-outs; every enumerated rule and random treebank grammars are binarized by the real code in 10 modes and TLC searches the output grammar for a composing chain (existential, up to reordering), rank 2, unique labels, un-binarization, small rules kept.", 'TLC/SANY/CommunityModules (Bags, Json); mechanical dump of the nested grammar/lexicon dicts; small-scope hypothesis beyond the bounds', 'TLA+ spec (Grammar.tla, GrammarProps.tla) + TLC model checking + TLC trace validation'),
    'C08': ('6/C08', "Grammars, lexicon and root labels are bags; TLC checks per-LHS totals and flow conservation (rules rewriting s + lexicon count of s = count-weighted RHS occurrences + root occurrences) for the extracted grammar and every binarized grammar (10 modes) of treebanks in which rules repeat under different parents.", 'TLC/SANY/CommunityModules (Bags, Json); mechanical dump of the nested grammar/lexicon dicts; small-scope hypothesis beyond the bounds', 'TLA+ spec (GrammarProps.tla: Flow, LhsTotals) + TLC trace validation of dumped grammar state'),
    'C09': ('6/C09', "PMCFG, RCG, lexicon and LoPar files are decoded by TLA+ operators over lexical records (GrammarFiles.tla: which line is what, references resolving, shared sequence ids, arity suffixes, start symbols, open-class counts); for grammars extracted from enumerated and random treebanks, raw and binarized in every mode, the real writers produce files in a temp directory, the tool's RCG reader re-reads them, and `treetools grammar` is run as a subprocess on tree and RCG input; TLC decides pmcfg.decodes, rcg.decodes, rcg.reader_roundtrip, lex.counts, lex_in_grammar, lopar.gram/start/oc/OC, lopar.refuses_lcfrs, cli_grammar_input_not_empty.", 'TLC/SANY/CommunityModules; the harness splits lines into tokens (whitespace, ":" pairs, "[n]" variables, "(" of predicates); vocabularies disjoint from nonterminals; labels without trailing digits/parentheses (as the property states)', 'TLA+ decoders (GrammarFiles.tla) + TLC trace validation of written files; grammars from TLC-enumerated trees'),
    'C02': ('6/C02', "The five output formats are specified as encoding relations with independent decoders over lexical records (Formats.tla: export line classes, numbering and parent resolution; the bracket group grammar with its denotation; TIGER-XML id-ref linking; Writers.tla: clauses and reference encoders). TLC checks on every tree x absent-field profile x (format, option set) within the bounds that reference encoder and decoder are consistent, then every job writes a freshly built real tree and TLC decides sid, export.wellformed/order/numbering, decodes, brackets.group/parens/one_line/refuses_exactly_disco, disco.sentence, terminals.exact, xml.wellformed/links, defaults_not_failure on the split output.", 'TLC/SANY/CommunityModules; harness splitting (whitespace, parentheses, tab, last "/" of word/TAG, xml.etree); BRACKETS table exported from the code; character alphabets are sampled (pools), not enumerated', 'TLA+ decoders/encoders (Formats.tla, Writers.tla) + TLC model checking + TLC trace validation of written text'),
    'C01': ('6/C01', "bracket_lexer and the 7-state reader automaton are TLA+ state machines with one action per character class / lexer token (BracketReader.tla), next to a declarative grammar of a well-formed bracket group with its denotation; TLC checks on EVERY lexer-token class sequence up to length 6/9 that automaton and grammar agree (same trees, error exactly for an ill-formed or truncated group) and must find the named deviation. Each sequence is rendered with seeded whitespace and read by the real reader. Corpus level: TLC enumerates trees x (format, reader option set); corpora of 1-3 trees are rendered (export v3/v4 with headers/comments/secondary edges, brackets with varied whitespace and empty root, discobrackets, TIGER-XML with shuffled attribute/node order, latin-1/utf-8, gzip), the rendering is decoded by the TLA+ decoders, and every Yield/Error/Eof event of the real reader is validated: count, sid, wf.*, dominance, tokens, labels, fields, quiet, illformed_rejected.*.", 'TLC/SANY/CommunityModules; harness renderers (joins) whose output must decode under the TLA+ decoders; BRACKETS table exported from the code; character alphabets and layouts are sampled', 'TLA+ automaton + declarative grammar (BracketReader.tla), decoders (Formats.tla), Readers.tla + TLC model checking + TLC trace validation of reader events'),
}

NOT_YET = 'check not built yet (work in progress, see DESIGN.md section 12)'


def main():
    props = [json.loads(l)['id'] for l in open(os.path.join(core.VERIF, 'properties.jsonl'))]
    checks = []
    for p in props:
        if p not in CLAIMED:
            continue
        ref, text, note, tech = CLAIMED[p]
        checks.append({
            'property_id': p,
            'quick_cmd': './check %s --tier quick' % p,
            'thorough_cmd': './check %s --tier thorough' % p,
            'evidence_file': '/verif/evidence/%s.json' % p,
            'replay_cmd_template': './check %s --replay {path}' % p,
            'engine': 'tla-harness',
            'level_claimed': {'category': 'model_checking', 'text': text, 'design_ref': 'DESIGN.md section ' + ref},
            'level_note': note,
            'technique': tech,
        })
    m = {
        'version': 1,
        'setup_cmd': './check setup',
        'hooks': {'guard': 'TREETOOLS_VERIF',
                  'enable': 'no source hooks are needed: the harness imports /repo afresh in every check and wraps '
                            'public calls from outside (linearization point = return of the public call)',
                  'baseline_off_cmd': BASELINE_OFF, 'source_commits': [], 'add_only': True},
        'engines': [{'name': 'tla-harness', 'path': '/verif/check',
                     'serves_properties': sorted(CLAIMED),
                     'kind_free_text': 'explicit TLA+ specifications (spec/*.tla) model-checked by TLC; TLC-generated cases '
                                       'replayed on the real code; recorded traces validated by TLC against the same specs'}],
        'checks': checks,
        'notes': 'see DESIGN.md; known findings in known_findings.json',
        'not_applicable': [{'property_id': p, 'reason': NOT_YET} for p in props if p not in CLAIMED],
    }
    with open(os.path.join(core.VERIF, 'MANIFEST.json'), 'w') as f:
        json.dump(m, f, indent=1)
    import jsonschema
    jsonschema.validate(m, json.load(open('/root/.vp/MANIFEST.schema.json')))
    print('MANIFEST ok: %d checks, %d not_applicable' % (len(checks), len(m['not_applicable'])))


if __name__ == '__main__':
    main()

"""Checks of the transformation family: C04 C05 C12 C13 C14 C15 (and the
structural part of C11)."""
import json
import random

from . import core, treeio, fam_transform as ft


def op(name, relc=(), bare=False, pos=0, preset='~', rules=(), keep=(), flags=(), rows=(), fop='~', fval=0):
    return {'name': name, 'relc': list(relc), 'bare': bare, 'pos': pos, 'preset': preset, 'rules': list(rules),
            'keep': [list(k) for k in keep], 'flags': sorted(flags),
            'rows': [{'idx': i, 'word': w, 'tag': list(t)} for (i, w, t) in rows], 'fop': fop, 'fval': fval}


def L(s):
    return list(s)


PLAIN = {'word': 'w', 'tag': L('T'), 'edge': '--'}
ROOT_ATTACH = op('root_attach')
NEGRA = op('negra_mark_heads')
SPLIT = op('boyd_split')
RAISE = op('raising')
TOP = op('add_topnode')
PVL = op('punctuation_verylow')
PRT = op('punctuation_root')
PSY = op('punctuation_symetrify')
PSYR = op('punctuation_symetrify', relc=L('PRELS'))
BIN = op('binarize')
BINB = op('binarize', bare=True)
COL = op('collapse_unary_chains')
UNC = op('uncollapse_unary_chains')
PDEL = op('punctuation_delete')
TOK_TR1 = {'word': '*T*-1', 'tag': L('-NONE-'), 'edge': '--'}
TOK_TR2 = {'word': '*', 'tag': L('-NONE-'), 'edge': '--'}
TOK_TR3 = {'word': '*ICH*=2', 'tag': L('-NONE-'), 'edge': '--'}
TRACE_WORDS = ['*T*-1', '*', '*ICH*=2', '*U*', '*-3']
PTBS = [op('ptb_delete_traces'), op('ptb_delete_traces', flags=['keepall']),
        op('ptb_delete_traces', keep=['*T*']), op('ptb_delete_traces', keep=['*T*', '*'], flags=['keepcoindex']),
        op('ptb_delete_traces', flags=['keepall', 'keepcoindex'])]


def rowsets(idxs):
    out = []
    for i in idxs:
        out.append([(i, 'x', 'NEW')])
        for j in idxs:
            if j > i:
                out.append([(i, 'x', 'NEW'), (j, 'y', 'NEU')])
    return out


INS = [op('insert_terminals', rows=r, flags=f) for r in rowsets([-1, 0, 1, 2, 3, 5]) for f in ([], ['quiet'])]
SUB = [op('substitute_terminals', rows=r, flags=f) for r in rowsets([-1, 0, 1, 3, 4]) + [[(2, 'x', '')]]
       for f in ([], ['quiet'])]
FILT = [op('filter_by_length', fop=o_, fval=v) for o_ in ('lt', 'gt', 'eq') for v in (1, 2, 3)]


def model(N, MaxCons, MaxChain=1, NMin=1, toks=(PLAIN,), labels=('X',), edges=('--',), ops=(),
          programs=(), MaxOps=1, note=''):
    return dict(N=N, NMin=NMin, MaxCons=MaxCons, MaxChain=MaxChain, MaxOps=MaxOps,
                TokKinds=[dict(t) for t in toks], CLabels=[L(x) for x in labels], CEdges=list(edges),
                OpSet=list(ops) or sorted({json.dumps(o, sort_keys=True) for p in programs for o in p}),
                Programs=[list(p) for p in programs], note=note)


TOK_HD = {'word': 'w', 'tag': L('T'), 'edge': 'HD'}
TOK_NK = {'word': 'w', 'tag': L('T'), 'edge': 'NK'}
TOK_COMMA = {'word': ',', 'tag': L('$,'), 'edge': '--'}
TOK_QUOTE = {'word': '"', 'tag': L('$('), 'edge': '--'}
TOK_REL = {'word': 'w', 'tag': L('PRELS'), 'edge': '--'}

CROSS = [[NEGRA, SPLIT, RAISE], [ROOT_ATTACH, NEGRA, SPLIT, RAISE]]
PUNCTP = [[ROOT_ATTACH, PVL], [ROOT_ATTACH, PSY], [ROOT_ATTACH, PSYR], [PRT], [ROOT_ATTACH, PRT]]
# the root need not be the node labelled VROOT: after add_topnode it is TOP, with VROOT below it
PUNCTP_TOP = [[TOP, PRT], [TOP, ROOT_ATTACH, PVL]]
ALLOPS = [ROOT_ATTACH, NEGRA, SPLIT, RAISE, TOP, PVL, PRT, PSY, BIN, COL, UNC]

# phrases made of punctuation only: the "never the last child" guards of the punctuation operations are live
# conditions, several moves of one call interact (4 tokens, 3 phrases is the smallest interaction)
PUNCT_DENSE = model(4, 3, NMin=3, toks=(TOK_QUOTE, PLAIN), programs=[[ROOT_ATTACH, PSY], [PRT], [ROOT_ATTACH, PVL]],
                    note='punctuation-only phrases')

MODELS = {
    'C12': {'quick': [model(5, 4, programs=[[ROOT_ATTACH]]),
                      model(6, 3, NMin=6, programs=[[ROOT_ATTACH]],
                            note='six tokens, two constituents: four root children, one of them discontinuous with '
                                 'another root child in its gap, next to a third (sibling skipping past the focus node)')],
            'thorough': [model(5, 5, programs=[[ROOT_ATTACH], [ROOT_ATTACH, ROOT_ATTACH]]),
                         model(6, 4, programs=[[ROOT_ATTACH]]),
                         model(7, 3, NMin=7, programs=[[ROOT_ATTACH]], note='seven tokens, two constituents')]},
    'C05': {'quick': [model(4, 3, toks=(PLAIN, TOK_HD), edges=('--', 'HD'), programs=CROSS),
                      model(3, 2, toks=(PLAIN, TOK_HD, TOK_NK), edges=('--', 'HD', 'NK'), programs=CROSS[:1],
                            note='all three ranks of the NeGra heuristic (HD, NK, none)'),
                      model(4, 3, MaxChain=2, toks=(PLAIN, TOK_HD), edges=('--', 'HD'), programs=CROSS[:1],
                            note='unary chains (a unary node over a discontinuous node)'),
                      model(5, 3, NMin=5, toks=(PLAIN, TOK_HD), edges=('HD',), programs=CROSS[:1],
                            note='five tokens, two constituents that are both marked as heads: a discontinuous head child '
                                 'whose two blocks fall into ONE block of its discontinuous parent')],
            'thorough': [model(5, 3, toks=(PLAIN, TOK_HD), edges=('--', 'HD'), programs=CROSS[:1]),
                         model(4, 3, MaxChain=2, toks=(PLAIN, TOK_HD), edges=('--', 'HD'), programs=CROSS)]},
    'C13': {'quick': [model(4, 2, toks=(PLAIN, TOK_COMMA, TOK_QUOTE), programs=PUNCTP[:2] + PUNCTP[3:]),
                      PUNCT_DENSE,
                      model(3, 2, toks=(PLAIN, TOK_COMMA), programs=PUNCTP_TOP),
                      model(3, 3, MaxChain=2, toks=(PLAIN, TOK_COMMA, TOK_QUOTE, TOK_REL), programs=PUNCTP)],
            'thorough': [model(5, 2, toks=(PLAIN, TOK_COMMA, TOK_QUOTE), programs=PUNCTP[:2] + PUNCTP[3:]),
                         model(4, 3, MaxChain=2, toks=(PLAIN, TOK_COMMA, TOK_QUOTE, TOK_REL), programs=PUNCTP)]},
    'C14': {'quick': [model(5, 2, toks=(PLAIN, TOK_HD), labels=('X', 'X-1', 'NP-SBJ-1'), programs=[[NEGRA, BIN], [NEGRA, BINB], [BIN]]),
                      model(3, 5, MaxChain=4, labels=('A', 'B'), programs=[[COL, UNC]])],
            'thorough': [model(6, 2, toks=(PLAIN, TOK_HD), labels=('X', 'X-1'), programs=[[NEGRA, BIN], [NEGRA, BINB], [BIN]]),
                         model(5, 3, toks=(PLAIN, TOK_HD), labels=('X',), programs=[[NEGRA, BIN]]),
                         model(3, 6, MaxChain=4, labels=('A', 'B'), programs=[[COL, UNC]])]},
    'C15': {'quick': [model(4, 2, toks=(PLAIN, TOK_HD, TOK_NK), edges=('--', 'HD', 'NK'), programs=[[NEGRA]])],
            'thorough': [model(4, 3, toks=(PLAIN, TOK_HD, TOK_NK), edges=('--', 'HD', 'NK'), programs=[[NEGRA]]),
                         model(5, 2, toks=(PLAIN, TOK_HD, TOK_NK), edges=('--', 'HD', 'NK'), programs=[[NEGRA]])]},
    'C11': {'quick': [model(4, 2, MaxChain=2, toks=(PLAIN, TOK_COMMA), programs=[[PDEL]] + [[op('delete_terminal', pos=i)] for i in (1, 2, 3, 4)]),
                      model(3, 2, MaxChain=2, toks=(PLAIN, TOK_TR1, TOK_TR2), labels=('X', 'NP-1', 'S=2-1', 'NP=2'), programs=[[o] for o in PTBS]),
                      model(3, 2, NMin=2, programs=[[o] for o in INS + SUB + FILT])],
            'thorough': [model(5, 3, MaxChain=2, toks=(PLAIN, TOK_COMMA), programs=[[PDEL]] + [[op('delete_terminal', pos=i)] for i in (1, 2, 3, 4, 5)]),
                         model(4, 2, MaxChain=2, toks=(PLAIN, TOK_TR1, TOK_TR2, TOK_TR3), labels=('X', 'NP-1', 'S=2-1', 'NP=2'), programs=[[o] for o in PTBS]),
                         model(3, 3, MaxChain=2, programs=[[o] for o in INS + SUB + FILT] + [[INS[3], SUB[5]], [SUB[2], INS[1]]])]},
    'C04': {'quick': [model(3, 2, MaxChain=2, toks=(PLAIN, TOK_COMMA, TOK_QUOTE), ops=ALLOPS, MaxOps=2),
                      PUNCT_DENSE,
                      model(4, 2, toks=(PLAIN, TOK_COMMA), ops=ALLOPS, MaxOps=2, NMin=4),
                      model(4, 2, toks=(PLAIN, TOK_HD), NMin=3,
                            programs=CROSS + [[NEGRA, SPLIT, RAISE, BIN], [ROOT_ATTACH, NEGRA, BIN, COL, UNC], [TOP, NEGRA, SPLIT, RAISE]])],
            'thorough': [model(3, 2, MaxChain=2, toks=(PLAIN, TOK_COMMA, TOK_QUOTE), edges=('--', 'HD'), ops=ALLOPS, MaxOps=3),
                         model(4, 3, toks=(PLAIN, TOK_COMMA), ops=ALLOPS, MaxOps=2),
                         model(5, 3, toks=(PLAIN, TOK_HD), NMin=3,
                               programs=CROSS + [[NEGRA, SPLIT, RAISE, BIN], [ROOT_ATTACH, NEGRA, BIN, COL, UNC], [TOP, NEGRA, SPLIT, RAISE]])]},
}

CFG = """CONSTANTS N = %(N)d
 NMin = %(NMin)d
 MaxCons = %(MaxCons)d
 MaxChain = %(MaxChain)d
 MaxOps = %(MaxOps)d
 TokKinds <- c_TokKinds
 CLabels <- c_CLabels
 CEdges <- c_CEdges
 OpSet <- c_OpSet
 Programs <- c_Programs
 WC <- c_WC
 PUNCT <- c_PUNCT
 PAIRPUNCT <- c_PAIRPUNCT
 Dev <- c_Dev
INIT Init
NEXT Next
INVARIANT InvTreeOK
INVARIANT InvClauses
INVARIANT InvRetRoot
%(emit)s
CHECK_DEADLOCK FALSE
"""
TRACE_CFG = """CONSTANTS PUNCT <- c_PUNCT
 PAIRPUNCT <- c_PAIRPUNCT
 Dev <- c_Dev
INIT TInit
NEXT TNext
CHECK_DEADLOCK FALSE
"""


CFG_HR = """CONSTANTS RulesTab <- c_Rules
 Decos <- c_Decos
 MaxLen = %(MaxLen)d
 Stride = %(Stride)d
 Offset = %(Offset)d
 PUNCT <- c_PUNCT
 PAIRPUNCT <- c_PAIRPUNCT
 Dev <- c_Dev
INIT Init
NEXT Next
INVARIANT InvRef
INVARIANT Emit
CHECK_DEADLOCK FALSE
"""


def run_headrules(w, cfgc, tier, seed, dev=()):
    decos = [[], list('-SBJ-1'), list('=2'), list("'"), list('=2-1'), list("-SBJ=2-1'")]
    b = dict(MaxLen=3, Stride=3, Offset=seed % 3) if tier == 'quick' else dict(MaxLen=3, Stride=1, Offset=0)
    defs = {'c_Rules': cfgc['rules'], 'c_Decos': set_of(decos if tier != 'quick' else decos[:2] + decos[3:5]),
            'c_PUNCT': set(cfgc['PUNCT']), 'c_PAIRPUNCT': set(cfgc['PAIRPUNCT']), 'c_Dev': set(dev)}
    core.gen_module(w, 'MCHR', ['MC_HeadRules'], defs)
    return core.tlc(w, 'MCHR', CFG_HR % b, timeout=3000), b


def asis_dev():
    """deviations still present in /repo = known findings that carry a deviation name"""
    return sorted({f['deviation'] for f in core.load_findings()['findings'] if f.get('deviation')})


def run_mc(w, m, cfgc, dev=(), emit=True, timeout=3000, name='MCT'):
    def fl(o):
        o = dict(o)
        o['flags'] = set(o['flags'])
        return o
    ops = [fl(json.loads(o) if isinstance(o, str) else o) for o in m['OpSet']]
    progs = [[fl(o) for o in p] for p in m['Programs']]
    defs = {'c_TokKinds': set_of(m['TokKinds']), 'c_CLabels': set_of(m['CLabels']),
            'c_CEdges': set(m['CEdges']), 'c_OpSet': set_of(ops),
            'c_Programs': set_of(progs),
            'c_WC': [[w_, treeio.chars(w_)] for w_ in TRACE_WORDS],
            'c_PUNCT': set(cfgc['PUNCT']), 'c_PAIRPUNCT': set(cfgc['PAIRPUNCT']), 'c_Dev': set(dev)}
    core.gen_module(w, name, ['MC_Transform'], defs)
    cfg = CFG % dict(m, emit='INVARIANT Emit' if emit else '')
    return core.tlc(w, name, cfg, coverage=emit, timeout=timeout)


def run_mc_sim(w, m, cfgc, seed, num):
    def fl(o):
        o = dict(o)
        o['flags'] = set(o['flags'])
        return o
    ops = [fl(json.loads(o) if isinstance(o, str) else o) for o in m['OpSet']]
    defs = {'c_TokKinds': set_of(m['TokKinds']), 'c_CLabels': set_of(m['CLabels']),
            'c_CEdges': set(m['CEdges']), 'c_OpSet': set_of(ops), 'c_Programs': set_of([]),
            'c_WC': [[w_, treeio.chars(w_)] for w_ in TRACE_WORDS],
            'c_PUNCT': set(cfgc['PUNCT']), 'c_PAIRPUNCT': set(cfgc['PAIRPUNCT']), 'c_Dev': set()}
    core.gen_module(w, 'MCTS', ['MC_Transform'], defs)
    cfg = CFG % dict(m, emit='INVARIANT Emit')
    return core.tlc(w, 'MCTS', cfg, workers=1, timeout=1800, simulate='num=%d' % num, depth=15, seed=seed + 1)


def set_of(lst):
    return core.Raw('{' + ', '.join(sorted(core.tla(x) for x in lst)) + '}')


def drop_prefixes(cases):
    """keep only the maximal operation sequences per tree"""
    keys = set()
    for c in cases:
        keys.add((json.dumps(c['tree'], sort_keys=True), json.dumps(c['ops'], sort_keys=True)))
    byt = {}
    for t, o in keys:
        byt.setdefault(t, []).append(json.loads(o))
    out = []
    for t, seqs in byt.items():
        for s in seqs:
            if not any(len(s2) > len(s) and s2[:len(s)] == s for s2 in seqs):
                out.append({'tree': json.loads(t), 'ops': s})
    out.sort(key=lambda c: json.dumps(c, sort_keys=True))
    return out


def site_of(case, step):
    if 1 <= step <= len(case['events']):
        return case['events'][step - 1]['a']
    return 'init'


RULES_N = op('mark_heads_by_rules', preset='negra')
RULES_P = op('mark_heads_by_rules', preset='ptb')
RANDOM_PROGRAMS = {
    'C12': [[ROOT_ATTACH]],
    'C05': CROSS + [[RULES_N, NEGRA, SPLIT, RAISE], [RULES_P, SPLIT, RAISE], [NEGRA, BIN, NEGRA, SPLIT, RAISE],
            [RULES_N, SPLIT, RAISE], [RULES_N, RULES_P, SPLIT, RAISE], [RULES_P, RULES_N, SPLIT, RAISE]],
    'C13': PUNCTP + PUNCTP_TOP,
    'C14': [[NEGRA, BIN], [NEGRA, BINB], [COL, UNC], [NEGRA, BIN, COL, UNC]],
    'C15': [[NEGRA], [RULES_P, NEGRA], [RULES_N, NEGRA], [NEGRA, RULES_P], [NEGRA, BIN, NEGRA], [RULES_P, RULES_N],
            [op('mark_heads_by_rules', preset='negra')], [op('mark_heads_by_rules', preset='ptb')],
            [op('mark_heads_by_rules', preset='foo')], [op('mark_heads_by_rules')],
            [op('mark_heads_by_rules', preset='')], [op('mark_heads_by_rules', preset='Negra')]],
    'C11': [[PDEL], [PTBS[0]], [PTBS[1]], [PTBS[3]], [INS[5]], [SUB[4]], [SUB[5]], [FILT[4]], [PDEL, INS[2]],
            [op('delete_terminal', pos=1)], [op('delete_terminal', pos=2), PDEL],
            # a terminal file naming one position twice is rejected
            [op('insert_terminals', rows=[(2, 'x', 'NEW'), (2, 'y', 'NEU')])],
            [op('substitute_terminals', rows=[(1, 'x', 'NEW'), (1, 'x', 'NEW')], flags=['quiet'])]],
    'C04': [[ROOT_ATTACH, NEGRA, SPLIT, RAISE, TOP], [ROOT_ATTACH, RULES_N, NEGRA, SPLIT, RAISE], [RULES_P, NEGRA, BIN],
            [NEGRA, BIN, NEGRA, SPLIT, RAISE], [ROOT_ATTACH, PVL, NEGRA, BIN, COL, UNC],
            [PRT, NEGRA, BIN], [ROOT_ATTACH, PSY, PVL, TOP, COL], [NEGRA, SPLIT, RAISE, BIN, COL, UNC],
            [TOP, ROOT_ATTACH, PRT, COL, UNC], [ROOT_ATTACH, PSYR, NEGRA, SPLIT, RAISE, PRT],
            [ROOT_ATTACH, RULES_P, SPLIT, RAISE], [RULES_N, SPLIT, RAISE, BIN]],
}


def interleaved_tree(rnd, nmax):
    """root children that interleave: the tokens are dealt out at random to 2..4 groups, every group of two
    or more tokens is a constituent directly below the root (single tokens stay root tokens), and some groups
    get an inner constituent - the configurations root_attach has to sort out"""
    n = rnd.randint(4, max(4, nmax))
    k = rnd.randint(2, 4)
    groups = [[] for _ in range(k)]
    for p in range(1, n + 1):
        groups[rnd.randrange(k)].append(p)
    nodes = [{'y': list(range(1, n + 1)), 'd': 0, 'tok': False, 'a': treeio.attr(lab='VROOT', edge='--')}]
    depth = {}
    for g in groups:
        if len(g) >= 2:
            nodes.append({'y': g, 'd': 1, 'tok': False, 'a': treeio.attr(lab=rnd.choice(['S', 'NP', 'VP']), edge='--')})
            for p in g:
                depth[p] = 2
            if len(g) >= 3 and rnd.random() < 0.4:
                sub = sorted(rnd.sample(g, rnd.randint(2, len(g) - 1)))
                nodes.append({'y': sub, 'd': 2, 'tok': False, 'a': treeio.attr(lab='NP', edge='--')})
                for p in sub:
                    depth[p] = 3
    for p in range(1, n + 1):
        nodes.append({'y': [p], 'd': depth.get(p, 1), 'tok': True,
                      'a': treeio.attr(lab='T', word=rnd.choice(['w%d' % p, ',', '"']), edge='--', lemma='--', morph='--')})
    return {'n': n, 'nodes': nodes}


def random_cases(prop, tier, seed, mods):
    rnd = random.Random(seed * 7919 + 13)
    n = 300 if tier == 'quick' else 2500
    out = []
    words = ['w', 'w', 'w', ',', '"', '.', '(', ')']
    tags = ('T', 'PRELS')
    if prop == 'C11':
        words = ['w', 'w', ',', '.', '*T*-1', '*', '*U*', '*-3']


    dense = [False]

    def wordf(r, p):
        x = r.choice(['w', '"', '"', '(', ')', "'", '"'] if dense[0] else words)
        return 'w%d' % p if x == 'w' else x

    def fix_traces(T):
        for x in T['nodes']:
            if x['tok']:
                x['a']['lab'] = list('-NONE-') if x['a']['word'].startswith('*') else x['a']['lab']
        if all(''.join(x['a']['lab']) == '-NONE-' for x in T['nodes'] if x['tok']):
            T['nodes'][-1]['a']['word'] = 'wz'
            T['nodes'][-1]['a']['lab'] = ['T']
    for k in range(n):
        dense[0] = prop in ('C13', 'C04') and k % 4 == 3      # phrases consisting of punctuation only
        T = treeio.random_tree(rnd, nmax=8 if tier == 'quick' else 11, maxcons=6,
                               labels=(('S', 'NP', 'VP', 'NP-1', 'NP-SBJ-1', "S-TPC-2'") if prop != 'C11'
                                       else ('S', 'NP=2', 'VP-SBJ=1', 'NP-1', 'S=2-1'))
                               if prop not in ('C15', 'C05', 'C04')
                               else ('S', 'NP', 'VP', 'NP-1', 'CO', 'DL', 'PRN', 'INTJ', 'PP', 'FRAG'),
                               edges=('--', 'HD', 'NK'),
                               words=wordf,
                               tags=('T', 'PRELS', 'NN', 'VVFIN', 'VBD', 'IN') if prop in ('C15', 'C05', 'C04') else ('T', 'PRELS'),
                               tokedges=('--', 'HD', 'NK'), chain=0.4)
        if prop in ('C12', 'C13', 'C04') and k % 3 == 1:
            T = interleaved_tree(rnd, 8 if tier == 'quick' else 11)
        for x in T['nodes']:
            x['a']['lab'] = list(x['a']['lab'])
        fix_traces(T)
        prog = rnd.choice(RANDOM_PROGRAMS[prop])
        if prop == 'C14' and k % 2 == 1:
            # head marks as some earlier processing left them: per constituent either one marked child (others
            # explicitly unmarked) or no head attribute on any child - independent of the node's own attribute;
            # binarize without a marker before it (a node with > 2 children none of which carries a mark is rejected)
            par = {}
            for y in T['nodes']:
                anc = [a_ for a_ in T['nodes'] if treeio.dominates(a_, y)]
                if anc:
                    par[id(y)] = max(anc, key=lambda a_: a_['d'])
            for c in [x for x in T['nodes'] if not x['tok']]:
                kids = [y for y in T['nodes'] if par.get(id(y)) is c]
                if rnd.random() < 0.35 or not kids:
                    continue
                h = rnd.randrange(len(kids))
                for i_, y in enumerate(kids):
                    y['a']['head'] = 'T' if i_ == h else 'F'
            prog = [rnd.choice([BIN, BINB])]
        if prop == 'C11':
            prog = [o for o in prog if not (o['name'] == 'delete_terminal' and (o['pos'] > T['n'] or T['n'] < 2))]
        if T['n'] < 2 and [o['name'] for o in prog] != ['collapse_unary_chains', 'uncollapse_unary_chains']:
            prog = [o for o in prog if o['name'] not in ('collapse_unary_chains', 'uncollapse_unary_chains')]
        out.append(ft.record_case('R-%05d' % k, T, prog, mods, seed + k, origin='random'))
    return out


def suite_cases():
    """the repository's own tests, run under the recorder plugin: every transformation call they make"""
    import os
    import subprocess
    import tempfile
    fd, out = tempfile.mkstemp(prefix='vf_suite_', suffix='.jsonl')
    os.close(fd)
    env = dict(os.environ, PYTHONPATH=core.VERIF + os.pathsep + core.REPO, VERIF_RECORD_FILE=out,
               PYTHONDONTWRITEBYTECODE='1')
    p = subprocess.run([core.VENV_PY, '-m', 'pytest', '-q', '-p', 'no:cacheprovider', '-p', 'harness.recorder_plugin',
                        'tests/test_trees.py'], cwd=core.REPO, env=env, stdout=subprocess.PIPE, stderr=subprocess.STDOUT)
    cases = []
    try:
        with open(out) as f:
            for ln in f:
                cases.append(json.loads(ln))
    finally:
        os.unlink(out)
        try:
            os.unlink(os.path.join(core.REPO, 'tempdest_lopar.lex'))
        except OSError:
            pass
    tail = p.stdout.decode('utf-8', 'replace').strip().splitlines()[-1:] or ['']
    return cases, tail[0]


def run(prop, tier, seed, replay=None):
    mods = treeio.repo_modules()
    cfgc = ft.export_config(mods)
    rep = core.Report(prop, tier, seed)
    want = (lambda c: c.startswith(prop + '.') or c.startswith('trace.'))
    dev = asis_dev()
    with core.Work('tf') as w:
        core.gen_module(w, 'TTgen', ['Trace_Transform'],
                        {'c_PUNCT': set(cfgc['PUNCT']), 'c_PAIRPUNCT': set(cfgc['PAIRPUNCT']),
                         'c_Dev': set(dev)})
        core.sany(w, 'TTgen')
        cases = []
        if replay:
            doc = json.load(open(replay))
            cases = [doc['case']]
        else:
            skel = []
            for k, m in enumerate(MODELS[prop][tier]):
                r = run_mc(w, m, cfgc)
                core.tlc_ok(r, 'MC_Transform %s #%d' % (prop, k))
                rep.add_mc('MC_Transform %s #%d %s' % (prop, k, json.dumps(
                    {x: m[x] for x in ('N', 'NMin', 'MaxCons', 'MaxChain', 'MaxOps')}, sort_keys=True)),
                    r, 'all trees within bounds x programs %s; invariants TreeOK, Clauses = {}, RetRoot'
                    % [[o['name'] for o in p] for p in m['Programs']][:6])
                skel.extend(r.cases)
            if prop == 'C04':
                # beyond the exhaustive bound: TLC -simulate walks random behaviours of the same specification
                # (bigger trees, sequences of up to 5 transformations); every visited state is a case
                sm = model(5, 4, MaxChain=2, toks=(PLAIN, TOK_COMMA, TOK_QUOTE, TOK_HD), edges=('--', 'HD'),
                           ops=ALLOPS, MaxOps=5, NMin=3)
                ops_ = [json.loads(o) if isinstance(o, str) else o for o in sm['OpSet']]
                rs = run_mc_sim(w, sm, cfgc, seed, num=150 if tier == 'quick' else 2000)
                if rs.errors or rs.violated:
                    open(core.VERIF + '/out/last_tlc_error.log', 'w').write(rs.out)
                    raise core.MachineryError('simulation of MC_Transform failed: %s %s' % (rs.errors[:3], rs.violated[:3]))
                rep.mc_runs.append({'model': 'MC_Transform -simulate N=5 MaxCons=4 MaxOps=5', 'distinct_states': 0,
                                    'states_generated': rs.generated, 'depth': 15, 'wall_s': round(rs.wall, 1),
                                    'note': 'random behaviours of the specification beyond the exhaustive bound; '
                                            'invariants checked on every visited state', 'coverage_actions': {}})
                rep.transitions += rs.generated
                skel.extend(c for c in rs.cases if len(c['ops']) >= 3)
            if prop == 'C15':
                r, b = run_headrules(w, cfgc, tier, seed)
                core.tlc_ok(r, 'MC_HeadRules')
                rep.add_mc('MC_HeadRules %s' % json.dumps(b, sort_keys=True), r,
                           'both presets x parent categories x child sequences with exactly one listed child x decorations')
                skel.extend(r.cases)
            skel = drop_prefixes(skel)
            cases.extend(core.pmap(ft.record_case,
                                   [('T-%06d' % k, c['tree'], c['ops'], None, seed * 31 + k)
                                    for k, c in enumerate(skel)]))
            rep.exhaustive = True
            cases.extend(random_cases(prop, tier, seed, mods))
            if tier == 'thorough' or prop == 'C04':
                sc, summary = suite_cases()
                for i, c in enumerate(sc):
                    c['id'] = 'SUITE-%05d-%s' % (i, c['events'][0]['a'])
                cases.extend(sc)
                rep.extra['suite_recorder'] = {'recorded_calls': len(sc), 'pytest': summary}
        byid = {c['id']: c for c in cases}
        verdicts, wall = core.validate_traces(w, 'TTgen', cases, header={'config': {'rules': cfgc['rules']}},
                                              cfg=TRACE_CFG, chunk=800)
        rep.extra['trace_validation_wall_s'] = round(wall, 1)
        fid = {}
        for v in verdicts.values():
            for f in v.get('fidelity', []):
                fid[f[0]] = fid.get(f[0], 0) + 1
        rep.extra['fidelity_mismatches_by_op'] = fid
        rep.extra['unexamined_events'] = sum(v.get('unexamined', 0) for v in verdicts.values())
        rep.judge(byid, verdicts, site_of=site_of, clause_filter=want)
        rep.rule = ('TLC builds every tree within the bounds of model_checking_runs and applies every program '
                    'listed there with the reference operators of Transform.tla (invariants: TreeOK, all property '
                    'clauses, returned node); each (tree, program) is replayed on the real functions with the raw '
                    'pointer graph dumped after every call, plus seeded random trees up to 8/11 tokens; TLC validates '
                    'every recorded step. non-trivial = some step changed the graph')
        rep.samples = [slim(cases[len(cases) // 3]), slim(cases[-1])] if cases else []
        rep.assumptions = ['TLC, SANY, CommunityModules Json', 'harness graph dump (treeio.Dumper)',
                           'PUNCT/PAIRPUNCT inventories and head-rule tables are data of the implementation '
                           '(exported from the working tree at run time)']
        return rep.finish(byid)


def slim(case):
    c = dict(case)
    c['events'] = [{k: v for k, v in e.items() if k != 'post'} for e in case['events']]
    return c

"""Check C18 (sentence-local, deterministic, history-independent processing)."""
import json
import random

from . import core, treeio, fam_proc

CFG = """CONSTANTS FileNames = {"f1", "f2"}
 Contents = {"k1", "k2"}
 Calls <- c_Calls
 MaxCalls = %d
 Dev = {%s}
INIT Init
NEXT Next
INVARIANT InvHistoryIndependent
INVARIANT InvCacheCoherent
%s
CHECK_DEADLOCK FALSE
"""
TRACE_CFG = """CONSTANTS Dev = {}
 FileNames = {"f1", "f2"}
 Contents = {"k1", "k2"}
 Calls = {}
 MaxCalls = 0
INIT TInit
NEXT TNext
CHECK_DEADLOCK FALSE
"""


def calls():
    out = []
    for op in ('insert_terminals', 'substitute_terminals'):
        for f in ('f1', 'f2'):
            out.append({'op': op, 'file': f, 'sent': 1})
    out.append({'op': 'insert_terminals', 'file': 'f1', 'sent': 2})
    for op in ('read', 'write', 'extract', 'binarize', 'boyd_split', 'binarize_tree', 'punctuation_delete', 'analysis',
               'read_gf_dash', 'read_gf_hash', 'heads_negra', 'heads_ptb', 'ptb_delete_traces', 'write_brackets_gf',
               'gram_cmd_mk1', 'gram_cmd_mk2'):
        out.append({'op': op, 'file': '~', 'sent': 1})
    out.append({'op': 'write', 'file': '~', 'sent': 2})
    return out


def run(prop, tier, seed, replay=None):
    rep = core.Report(prop, tier, seed)
    with core.Work('pr') as w:
        core.gen_module(w, 'MCP', ['MC_Process'],
                        {'c_Calls': core.Raw('{' + ', '.join(core.tla(c) for c in calls()) + '}')})
        core.sany(w, 'MCP')
        core.sany(w, 'Trace_Process')
        cases = []
        if replay:
            cases = [json.load(open(replay))['case']]
        else:
            maxc = 2 if tier == 'quick' else 3
            r = core.tlc(w, 'MCP', CFG % (maxc, '', 'INVARIANT Emit'), coverage=True, timeout=3000)
            core.tlc_ok(r, 'MC_Process')
            rep.add_mc('MC_Process MaxCalls=%d' % maxc, r, 'every history; Res(call, state) = Res(call, fresh state)')
            nv = core.tlc(w, 'MCP', CFG % (2, '"file_rewritten_under_same_name"', ''), timeout=600)
            if 'InvHistoryIndependent' not in nv.violated and 'InvCacheCoherent' not in nv.violated:
                raise core.MachineryError('non-vacuity: stale cache not detected when a file is rewritten under the same name')
            rep.extra['nonvacuity'] = {'file_rewritten_under_same_name': 'invariant violated as required (scope: distinct names)'}
            hists = []
            seen = set()
            for c in r.cases:
                k = json.dumps(c, sort_keys=True)
                if k not in seen and len(c['hist']) == maxc:
                    seen.add(k)
                    hists.append(c)
            rnd = random.Random(seed)
            if tier == 'quick':
                # every ordered pair of calls once (first file assignment), the other assignments sampled
                f0 = json.dumps(hists[0]['files'], sort_keys=True)
                first = [h for h in hists if json.dumps(h['files'], sort_keys=True) == f0]
                rest = [h for h in hists if json.dumps(h['files'], sort_keys=True) != f0]
                hists = first + rnd.sample(rest, min(len(rest), 150))
            elif len(hists) > 3000:
                hists = rnd.sample(hists, 3000)
            # fresh-process results, one subprocess per distinct concrete call
            concrete = {}
            for h in hists:
                for c in h['hist']:
                    call = {'op': c['op'], 'file': c['file'], 'sent': c['sent'],
                            'rows': h['files'].get(c['file'], '~') if c['file'] != '~' else '~'}
                    concrete[json.dumps(call, sort_keys=True)] = call
            keys = sorted(concrete)
            fresh = core.pmap(fam_proc.fresh_result, [(concrete[k],) for k in keys], chunksize=2) \
                if len(keys) >= 200 else [fam_proc.fresh_result(concrete[k]) for k in keys]
            table = dict(zip(keys, fresh))
            rep.extra['fresh_process_calls'] = len(keys)
            cases = core.pmap(fam_proc.record_history_case,
                              [('H-%05d' % i, h['hist'], h['files'], table) for i, h in enumerate(hists)], chunksize=8)
            ncli = 48 if tier == 'quick' else 200
            cases += core.pmap(fam_proc.record_cli_case, [('P-%04d' % i, seed * 1000 + i) for i in range(ncli)], chunksize=1, minpar=2)
        byid = {c['id']: c for c in cases}
        verdicts, wall = core.validate_traces(w, 'Trace_Process', cases, cfg=TRACE_CFG, chunk=100)
        bad = [v['id'] for v in verdicts.values() if any(f[0].startswith('machinery.') for f in v['failed'])]
        if bad:
            raise core.MachineryError('file discipline broken in %s' % bad[:3])
        rep.extra['trace_validation_wall_s'] = round(wall, 1)

        def site(case, step):
            e = case['events'][step - 1] if 1 <= step <= len(case['events']) else {}
            return e.get('op') or e.get('what', '*')
        rep.judge(byid, verdicts, site_of=site)
        rep.rule = ('TLC enumerates every history of calls (terminal-file transformations with two file names, reader, writer, '
                    'grammar extraction/binarization, structural transformations, analysis); each history runs in ONE harness process '
                    'and every call also in a fresh interpreter process; plus CLI runs over corpora A, B, A+B (conversion with '
                    'transformations, grammar, analysis) and repetitions under other hash seeds. non-trivial = history of more '
                    'than one call or a CLI comparison')
        rep.samples = [slim(cases[0]), slim(cases[-1])] if cases else []
        rep.assumptions = ['TLC, SANY, CommunityModules', 'results are compared as JSON values by TLC',
                           'scope: a terminal-file name keeps its content within one process (DESIGN 6/C18)']
        return rep.finish(byid)


def slim(case):
    c = dict(case)
    c['events'] = [{k: (v if k not in ('out', 'fresh', 'a_', 'b_', 'ab', 'out1', 'out2') else '...') for k, v in e.items()}
                   for e in case['events']]
    return c

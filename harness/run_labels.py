"""Check C20 (label parsing / formatting / decoration)."""
import json
import random

from . import core, treeio, fam_labels

ALPHA = ['A', 'b', '1', '2', '-', '=', '#', "'", '*']
CFG = """CONSTANTS Alphabet = {%(alpha)s}
 L = %(L)d
 L2 = %(L2)d
 Seeds <- SeedsDef
 Seps = {"-", "#"}
 Dev = {%(dev)s}
INIT Init
NEXT Next
INVARIANT InvDone
INVARIANT InvShape
%(emit)s
CHECK_DEADLOCK FALSE
"""
CFG_DEC = """CONSTANTS Dev = {}
INIT Init
NEXT Next
INVARIANT InvDecor
INVARIANT Emit
CHECK_DEADLOCK FALSE
"""
TRACE_CFG = 'CONSTANTS Dev = {%s}\nINIT TInit\nNEXT TNext\nCHECK_DEADLOCK FALSE\n'
BOUNDS = {'quick': dict(L=4, L2=2), 'thorough': dict(L=6, L2=3)}


def cfg(b, dev=(), emit=True):
    return CFG % dict(alpha=', '.join('"%s"' % a for a in ALPHA), L=b['L'], L2=b['L2'],
                      dev=', '.join('"%s"' % d for d in dev),
                      emit='INVARIANT Emit' if emit else '')


def site_of(case, step):
    if step < 1 or step > len(case['events']):
        return '*'
    e = case['events'][step - 1]
    return e.get('comp', e['a'])


def run(prop, tier, seed, replay=None):
    mods = treeio.repo_modules()
    rep = core.Report(prop, tier, seed)
    with core.Work('lab') as w:
        for m in ('MC_Labels', 'MC_Decorate', 'Trace_Labels'):
            core.sany(w, m)
        cases = []
        if replay:
            doc = json.load(open(replay))
            cases = [doc['case']]
        else:
            b = BOUNDS[tier]
            r = core.tlc(w, 'MC_Labels', cfg(b), coverage=True, timeout=3000)
            core.tlc_ok(r, 'MC_Labels')
            rep.add_mc('MC_Labels L=%d L2=%d' % (b['L'], b['L2']), r,
                       'every string over %s up to length L (and EMPTY + up to L2 more): the stepwise '
                       'stripping machine equals Parse and satisfies every C20 clause' % ''.join(ALPHA))
            # non-vacuity: the documented system with the deviation must violate the separator clause
            rv = core.tlc(w, 'MC_Labels', cfg(dict(L=3, L2=0), dev=['gf_separator_ignored'], emit=False),
                          timeout=600)
            if 'InvDone' not in rv.violated:
                raise core.MachineryError('non-vacuity: Dev={gf_separator_ignored} not detected by InvDone')
            rep.extra['nonvacuity'] = {'gf_separator_ignored': 'InvDone violated as required'}
            seen = set()
            for c in r.cases:
                key = tuple(c['s'])
                if key in seen:
                    continue
                seen.add(key)
                cases.append(fam_labels.record_parse_case('L-%06d' % len(seen), c['s'], mods))
            r2 = core.tlc(w, 'MC_Decorate', CFG_DEC, timeout=600)
            core.tlc_ok(r2, 'MC_Decorate')
            rep.add_mc('MC_Decorate', r2, 'all node attribute x output option combinations')
            seen = set()
            for c in r2.cases:
                key = json.dumps(c, sort_keys=True)
                if key in seen:
                    continue
                seen.add(key)
                cases.append(fam_labels.record_decor_case('D-%05d' % len(seen), c, mods))
            rep.exhaustive = True
            rnd = random.Random(seed)
            longer = ALPHA + ['N', 'P', 'S', 'B', 'J', '0', '9', 'E', 'M', 'T', 'Y']
            for k in range(2000 if tier == 'quick' else 40000):
                n = rnd.randint(5, 14)
                s = [rnd.choice(longer) for _ in range(n)]
                cases.append(fam_labels.record_parse_case('R-%06d' % k, s, mods, origin='random'))
            # grammar-directed labels: every combination (and every order) of the documented decorations
            # LABEL(-GF)?(=GAP)?(-CO)?'? - the stripping steps interact only when several are present
            import itertools
            k = 0
            for base in ('A', 'Ab', 'A1'):
                for gf in ('', '-B', '-b1', '--', '-B-A'):
                    for gap in ('', '=1', '=12'):
                        for co in ('', '-2', '-21'):
                            for hd in ('', "'"):
                                mids = [x for x in (gf, gap, co) if x]
                                for perm in set(itertools.permutations(mids)):
                                    k += 1
                                    cases.append(fam_labels.record_parse_case('G-%05d' % k, list(base + ''.join(perm) + hd),
                                                                              mods, origin='grammar'))
        byid = {c['id']: c for c in cases}
        findings = core.load_findings()
        verdicts, wall = core.validate_traces(w, 'Trace_Labels', cases, cfg=TRACE_CFG % '', chunk=4000)
        rep.extra['trace_validation_wall_s'] = round(wall, 1)
        rep.extra['fidelity_mismatches'] = sum(1 for v in verdicts.values() if v.get('fidelity'))
        rep.judge(byid, verdicts, site_of=site_of)
        rep.rule = ('TLC enumerates all strings up to length L over {A b 1 2 - = # \' *} (plus the literal EMPTY '
                    'extended by up to L2 characters) and all node-attribute x option combinations; each is run '
                    'through the real parse_label/format_label/get_label; plus seeded random longer labels. '
                    'non-trivial = the parse found at least one decoration / get_label added one')
        rep.samples = [cases[len(cases) // 5], cases[-1]] if cases else []
        rep.assumptions = ['TLC, SANY, CommunityModules Json', 'labels are presented to TLC as sequences of characters']
        return rep.finish(byid)

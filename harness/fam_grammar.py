"""C06 C07 C08 C09: drive grammar.extract / grammar.binarize / the grammar writers and
readers of the real code and dump the nested dicts mechanically."""
import contextlib
import io
import random

from . import treeio


def fam_io_ws():
    from . import fam_io
    return fam_io.ASCII_WS


def ws_split(s):
    from . import fam_io
    return fam_io.ws_split(s)


def dump_gram(gram, atoms=None):
    out = []
    for func in gram:
        for lin in gram[func]:
            for vert in gram[func][lin]:
                v = [vert] if isinstance(vert, str) else list(vert)
                out.append({'func': list(func), 'lin': [[list(e) for e in arg] for arg in lin],
                            'vert': v, 'cnt': gram[func][lin][vert]})
    return out


def dump_lex(lex, atoms):
    return [[atoms.abst(w), t, lex[w][t]] for w in lex for t in lex[w]]


MODES = {
    'det-none': dict(reorder='none', markov='F', v=0, h=0, nofanout='F'),
    'det-optimal': dict(reorder='optimal', markov='F', v=0, h=0, nofanout='F'),
    'mk-none-1-2': dict(reorder='none', markov='T', v=1, h=2, nofanout='F'),
    'mk-optimal-1-1': dict(reorder='optimal', markov='T', v=1, h=1, nofanout='F'),
    'mk-none-0-1': dict(reorder='none', markov='T', v=0, h=1, nofanout='F'),
    'mk-none-2-3': dict(reorder='none', markov='T', v=2, h=3, nofanout='F'),
    'mk-none-3-0': dict(reorder='none', markov='T', v=3, h=0, nofanout='F'),
    'mk-none-1-2-nf': dict(reorder='none', markov='T', v=1, h=2, nofanout='T'),
    'mk-optimal-2-1-nf': dict(reorder='optimal', markov='T', v=2, h=1, nofanout='T'),
    'mk-none-0-0': dict(reorder='none', markov='T', v=0, h=0, nofanout='F'),
}


def call_binarize(mods, gram, mode):
    g = mods['grammar']
    reord = g.reordering_optimal if mode['reorder'] == 'optimal' else g.reordering_none
    mk = None
    if mode['markov'] == 'T':
        mk = {'v': mode['v'], 'h': mode['h']}
        if mode['nofanout'] == 'T':
            mk['nofanout'] = True
    with contextlib.redirect_stderr(io.StringIO()), contextlib.redirect_stdout(io.StringIO()):
        return g.binarize(gram, reordering=reord, markov_opts=mk)


def bin_events(mods, gram, modes):
    evs = []
    for name in modes:
        mode = MODES[name]
        ev = {'a': 'binarize', 'mode': mode, 'mname': name}
        try:
            out = call_binarize(mods, gram, mode)
            ev['res'] = 'ok'
            ev['out'] = [{'func': r['func'], 'lin': r['lin'], 'cnt': r['cnt']} for r in dump_gram(out)]
        except Exception as ex:
            ev['res'] = 'exc'
            ev['exc'] = type(ex).__name__ + ': ' + str(ex)[:80]
            ev['out'] = []
        evs.append(ev)
    return evs


def record_treebank_case(cid, Ts, modes, mods, seed, origin='tlc'):
    mods = mods or treeio.repo_modules()
    g = mods['grammar']
    ga = mods['grammaranalysis']
    rnd = random.Random(seed)
    atoms = treeio.Atoms(seed, exotic=True)
    gram, lex = {}, {}
    events = []
    for k, T in enumerate(Ts):
        root = treeio.build(T, mods, atoms, rnd)
        root.data['sid'] = k + 1
        dmp = treeio.Dumper(atoms)
        ev = {'a': 'extract', 'tree': dmp.dump(root)}
        try:
            g.extract(root, gram, lex)
            ev['res'] = 'ok'
            ev['gram'] = dump_gram(gram)
            ev['lex'] = dump_lex(lex, atoms)
            ev['cf'] = 'T' if ga.is_contextfree(gram) else 'F'
            lins = []
            for func in gram:
                for lin in gram[func]:
                    lins.append([[[list(e) for e in arg] for arg in lin], list(ga.fan_out(lin))])
            ev['fo'] = lins
        except Exception as ex:
            ev['res'] = 'exc'
            ev['exc'] = type(ex).__name__ + ': ' + str(ex)[:80]
        events.append(ev)
    events.extend(bin_events(mods, gram, modes))
    return {'id': cid, 'origin': origin, 'events': events, 'tags': []}


def record_rule_case(cid, func, lin, modes, mods, cnt=1, origin='tlc'):
    """one rule - or, when `lin` is a dict {'lins': [...]}, ONE bare production with several linearizations (in
    that insertion order, with counts 1, 2, ...) - is the whole grammar that is binarized in every mode"""
    mods = mods or treeio.repo_modules()
    lins = lin['lins'] if isinstance(lin, dict) else [lin]
    gram = {tuple(func): {}}
    for k, ln in enumerate(lins):
        vert = ('%s%d' % (func[0], len(ln)), 'S1')
        lin_t = tuple(tuple(tuple(e) for e in arg) for arg in ln)
        gram[tuple(func)][lin_t] = {vert: cnt + k}
    events = [{'a': 'setgram', 'gram': dump_gram(gram)}]
    events.extend(bin_events(mods, gram, modes))
    return {'id': cid, 'origin': origin, 'events': events, 'tags': []}


# --------------------------------------------------------------------------
# grammar files (C09): lexical records only
import copy
import os
import re
import shutil
import subprocess
import tempfile

from . import core


def _lines(path, enc='utf-8'):
    with open(path, encoding=enc) as f:
        return [ln for ln in f.read().split('\n') if ln.strip(fam_io_ws()) != '']


def pmcfg_records(path, atoms, enc='utf-8'):
    out = []
    for ln in _lines(path, enc):
        toks = ws_split(ln)
        rec = {'toks': [atoms.abst(t) for t in toks], 'cnt': -1, 'pairs': []}
        if len(toks) == 2 and toks[1].isdigit():
            rec['cnt'] = int(toks[1])
        if len(toks) >= 2 and toks[1] == '->':
            rec['pairs'] = [[int(x) for x in t.split(':')] for t in toks[2:]]
        out.append(rec)
    return out


def rcg_records(path, atoms, enc='utf-8'):
    out = []
    for ln in _lines(path, enc):
        toks = ws_split(ln)
        cnt = int(toks[0].split(':')[1]) if ':' in toks[0] and toks[0].split(':')[1].isdigit() else -1
        preds = []
        for t in toks[1:2] + toks[3:]:
            i = t.find('(')
            args = t[i + 1:-1].split(',') if i >= 0 else []
            nm = t[:i] if i >= 0 else t
            nm_a = atoms.abst(nm)
            for k in range(1, len(nm)):
                if nm[-k:].isdigit() and nm[:-k] in atoms.c2a:   # predicate name = symbol + arity digits
                    nm_a = atoms.abst(nm[:-k]) + nm[-k:]
                    break
                if not nm[-k:].isdigit():
                    break
            preds.append({'name': nm_a,
                          'args': [[int(x) for x in re.findall(r'\[(\d+)\]', a)] for a in args]})
        out.append({'cnt': cnt, 'arrow': toks[2] if len(toks) > 2 else '~', 'preds': preds})
    return out


def tok_records(path, atoms, enc='utf-8'):
    out = []
    for ln in _lines(path, enc):
        toks = ws_split(ln)
        out.append({'toks': [atoms.abst(t) for t in toks],
                    'nums': [int(t) if t.isdigit() else -1 for t in toks]})
    return out


def record_files_case(cid, Ts, binmode, mods, seed, with_cli=False, origin='random'):
    mods = mods or treeio.repo_modules()
    g = mods['grammar']
    go = mods['grammaroutput']
    gi = mods['grammarinput']
    to = mods['treeoutput']
    rnd = random.Random(seed)
    labs = {x['a']['lab'] for T in Ts for x in T['nodes']}
    # a word spelled like a category stays as it is (the collision is the point of such a case)
    atoms = treeio.Atoms(seed, exotic=True, protect={x['a']['word'] for T in Ts for x in T['nodes'] if x['tok']} & labs)
    gram, lex = {}, {}
    events = []
    tmp = tempfile.mkdtemp(prefix='vf_gf_')
    try:
        roots = []
        for k, T in enumerate(Ts):
            root = treeio.build(T, mods, atoms, rnd)
            root.data['sid'] = k + 1
            roots.append(root)
            dmp = treeio.Dumper(atoms)
            ev = {'a': 'extract', 'tree': dmp.dump(root)}
            g.extract(root, gram, lex)
            ev.update({'res': 'ok', 'gram': dump_gram(gram), 'lex': dump_lex(lex, atoms),
                       'cf': 'T' if mods['grammaranalysis'].is_contextfree(gram) else 'F', 'fo': []})
            events.append(ev)
        treebank_gram = gram
        if binmode:
            gram = call_binarize(mods, gram, MODES[binmode])
            events.append({'a': 'setgram', 'gram': dump_gram(gram)})
            # setgram resets the spec's lexicon; re-establish it through the event
            events[-1]['keeplex'] = 'T'
        words = sorted(lex)
        common = {'words': [atoms.abst(w_) for w_ in words],
                  'caps': [atoms.abst(w_) for w_ in words if w_[0].isupper()]}

        # the encoding of the files written and re-read through the API (a quarter of the cases each latin-1 /
        # utf-16 when the words allow it)
        wenc = 'utf-8'
        if seed % 4 == 1:
            wenc = 'utf-16'
        elif seed % 4 == 2:
            try:
                ''.join(lex).encode('latin-1')
                wenc = 'latin-1'
            except UnicodeEncodeError:
                pass

        def write(fmt, lig):
            ev = dict(common, a='write', fmt=fmt, lig='T' if lig else 'F', files={}, enc=wenc)
            dest = os.path.join(tmp, '%s_%s' % (fmt, 'lig' if lig else 'lex'))
            try:
                with contextlib.redirect_stderr(io.StringIO()):
                    getattr(go, fmt)(copy.deepcopy(gram), copy.deepcopy(lex), dest, wenc,
                                     # (an option is on when its key is given, whatever value it carries:
                                     #  `--dest-opts lex_in_grammar:0` arrives as the integer 0)
                                     **({'lex_in_grammar': (True, 0, False, 1)[seed % 4]} if lig else {}))
                ev['res'] = 'ok'
                if fmt == 'pmcfg':
                    ev['files']['pmcfg'] = pmcfg_records(dest + '.pmcfg', atoms, wenc)
                elif fmt == 'rcg':
                    ev['files']['rcg'] = rcg_records(dest + '.rcg', atoms, wenc)
                else:
                    for ext in ('gram', 'start', 'oc', 'OC'):
                        ev['files'][ext] = tok_records(dest + '.' + ext, atoms, wenc)
                if not lig or fmt == 'lopar':
                    ev['files']['lex'] = tok_records(dest + '.lex', atoms, wenc)
            except Exception as ex:
                ev['res'] = 'exc'
                ev['exc'] = type(ex).__name__ + ': ' + str(ex)[:80]
            events.append(ev)
            return dest
        write('pmcfg', False)
        write('pmcfg', True)
        rdest = write('rcg', False)
        ev = {'a': 'read_rcg', 'enc': wenc}
        try:
            g2, l2 = gi.rcg(rdest, wenc)
            ev.update({'res': 'ok', 'gram': dump_gram(g2), 'lex': dump_lex(l2, atoms)})
        except Exception as ex:
            ev.update({'res': 'exc', 'exc': type(ex).__name__ + ': ' + str(ex)[:80], 'gram': [], 'lex': []})
        events.append(ev)
        write('rcg', True)
        write('lopar', False)
        if with_cli:
            allw = ''.join(lex)
            encs = [('utf-8', 'utf-8'), ('utf-8', 'utf-16'), ('utf-16', 'utf-8')]
            try:
                allw.encode('latin-1')
                encs += [('latin-1', 'utf-8'), ('utf-8', 'latin-1'), ('latin-1', 'utf-16')]
            except UnicodeEncodeError:
                pass
            src_enc, dest_enc = rnd.choice(encs)

            def cli(args, src, denc):
                dest = os.path.join(tmp, 'cli_' + src)
                p = subprocess.run([core.VENV_PY, os.path.join(core.REPO, 'treetools'), 'grammar'] + args(dest),
                                   stdout=subprocess.PIPE, stderr=subprocess.PIPE, cwd=tmp)
                ev = {'a': 'cli', 'src': src, 'rc': p.returncode, 'files': {'pmcfg': [], 'lex': []},
                      'encs': '%s->%s' % (src_enc if src == 'export' else 'utf-8', denc)}
                if p.returncode == 0 and os.path.exists(dest + '.pmcfg'):
                    try:
                        ev['files']['pmcfg'] = pmcfg_records(dest + '.pmcfg', atoms, denc)
                        ev['files']['lex'] = tok_records(dest + '.lex', atoms, denc) if os.path.exists(dest + '.lex') else []
                    except UnicodeError:
                        ev['files'] = {'pmcfg': [{'toks': ['<undecodable>'], 'cnt': -1, 'pairs': []}], 'lex': []}
                else:
                    ev['stderr'] = p.stderr.decode('utf-8', 'replace')[-300:]
                events.append(ev)
            cli(lambda d: [rdest, d, 'treebank', '--src-format', 'rcg', '--src-enc', wenc, '--dest-enc', dest_enc], 'rcg', dest_enc)
            if not binmode:
                tb = os.path.join(tmp, 'tb.export')
                with open(tb, 'w', encoding=src_enc) as f:
                    for r in roots:
                        to.export(r, f)
                cli(lambda d: [tb, d, 'treebank', '--src-enc', src_enc, '--dest-enc', dest_enc], 'export', dest_enc)
    finally:
        shutil.rmtree(tmp, ignore_errors=True)
    return {'id': cid, 'origin': origin, 'events': events, 'tags': []}

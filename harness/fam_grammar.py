"""C06 C07 C08 C09: drive grammar.extract / grammar.binarize / the grammar writers and
readers of the real code and dump the nested dicts mechanically."""
import contextlib
import io
import random

from . import treeio


def dump_gram(gram, atoms=None):
    out = []
    for func in gram:
        for lin in gram[func]:
            for vert in gram[func][lin]:
                v = [vert] if isinstance(vert, str) else list(vert)
                out.append({'func': list(func), 'lin': [[list(e) for e in arg] for arg in lin],
                            'vert': v, 'cnt': gram[func][lin][vert]})
    return out


def dump_lex(lex, atoms):
    return [[atoms.abst(w), t, lex[w][t]] for w in lex for t in lex[w]]


MODES = {
    'det-none': dict(reorder='none', markov='F', v=0, h=0, nofanout='F'),
    'det-optimal': dict(reorder='optimal', markov='F', v=0, h=0, nofanout='F'),
    'mk-none-1-2': dict(reorder='none', markov='T', v=1, h=2, nofanout='F'),
    'mk-optimal-1-1': dict(reorder='optimal', markov='T', v=1, h=1, nofanout='F'),
    'mk-none-0-1': dict(reorder='none', markov='T', v=0, h=1, nofanout='F'),
    'mk-none-2-3': dict(reorder='none', markov='T', v=2, h=3, nofanout='F'),
    'mk-none-3-0': dict(reorder='none', markov='T', v=3, h=0, nofanout='F'),
    'mk-none-1-2-nf': dict(reorder='none', markov='T', v=1, h=2, nofanout='T'),
    'mk-optimal-2-1-nf': dict(reorder='optimal', markov='T', v=2, h=1, nofanout='T'),
    'mk-none-0-0': dict(reorder='none', markov='T', v=0, h=0, nofanout='F'),
}


def call_binarize(mods, gram, mode):
    g = mods['grammar']
    reord = g.reordering_optimal if mode['reorder'] == 'optimal' else g.reordering_none
    mk = None
    if mode['markov'] == 'T':
        mk = {'v': mode['v'], 'h': mode['h']}
        if mode['nofanout'] == 'T':
            mk['nofanout'] = True
    with contextlib.redirect_stderr(io.StringIO()), contextlib.redirect_stdout(io.StringIO()):
        return g.binarize(gram, reordering=reord, markov_opts=mk)


def bin_events(mods, gram, modes):
    evs = []
    for name in modes:
        mode = MODES[name]
        ev = {'a': 'binarize', 'mode': mode, 'mname': name}
        try:
            out = call_binarize(mods, gram, mode)
            ev['res'] = 'ok'
            ev['out'] = [{'func': r['func'], 'lin': r['lin'], 'cnt': r['cnt']} for r in dump_gram(out)]
        except Exception as ex:
            ev['res'] = 'exc'
            ev['exc'] = type(ex).__name__ + ': ' + str(ex)[:80]
            ev['out'] = []
        evs.append(ev)
    return evs


def record_treebank_case(cid, Ts, modes, mods, seed, origin='tlc'):
    mods = mods or treeio.repo_modules()
    g = mods['grammar']
    ga = mods['grammaranalysis']
    rnd = random.Random(seed)
    atoms = treeio.Atoms(seed, exotic=True)
    gram, lex = {}, {}
    events = []
    for k, T in enumerate(Ts):
        root = treeio.build(T, mods, atoms, rnd)
        root.data['sid'] = k + 1
        dmp = treeio.Dumper(atoms)
        ev = {'a': 'extract', 'tree': dmp.dump(root)}
        try:
            g.extract(root, gram, lex)
            ev['res'] = 'ok'
            ev['gram'] = dump_gram(gram)
            ev['lex'] = dump_lex(lex, atoms)
            ev['cf'] = 'T' if ga.is_contextfree(gram) else 'F'
            lins = []
            for func in gram:
                for lin in gram[func]:
                    lins.append([[[list(e) for e in arg] for arg in lin], list(ga.fan_out(lin))])
            ev['fo'] = lins
        except Exception as ex:
            ev['res'] = 'exc'
            ev['exc'] = type(ex).__name__ + ': ' + str(ex)[:80]
        events.append(ev)
    events.extend(bin_events(mods, gram, modes))
    return {'id': cid, 'origin': origin, 'events': events, 'tags': []}


def record_rule_case(cid, func, lin, modes, mods, cnt=1, origin='tlc'):
    mods = mods or treeio.repo_modules()
    vert = ('%s%d' % (func[0], len(lin)), 'S1')
    lin_t = tuple(tuple(tuple(e) for e in arg) for arg in lin)
    gram = {tuple(func): {lin_t: {vert: cnt}}}
    events = [{'a': 'setgram', 'gram': dump_gram(gram)}]
    events.extend(bin_events(mods, gram, modes))
    return {'id': cid, 'origin': origin, 'events': events, 'tags': []}

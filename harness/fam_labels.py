"""C20: drive parse_label / format_label / get_label of the real code."""
import copy

from . import treeio


def _cs(x):
    return treeio.chars(x) if x != '' else []


def record_parse_case(cid, chars_, mods, origin='tlc'):
    trees = mods['trees']
    s = ''.join(chars_)
    events = []

    def ev(name, fn, **kw):
        r = dict(kw)
        try:
            r.update(fn())
            r['res'] = 'ok'
        except Exception as ex:
            r['res'] = 'exc'
            r['exc'] = type(ex).__name__
        r['a'] = name
        events.append(r)

    def plog(p):
        return {'cat': _cs(p.label), 'gf': _cs(p.gf), 'sep': [p.gf_separator], 'co': _cs(p.coindex),
                'gap': _cs(p.gapindex), 'hm': _cs(p.headmarker), 'trace': 'T' if p.is_trace else 'F'}

    ev('parse', lambda: plog(trees.parse_label(s)))
    try:
        p0 = trees.parse_label(s)
    except Exception:
        p0 = None
    if p0 is not None:
        def fmt():
            return {'p': plog(p0),
                    'ff': _cs(trees.format_label(p0)),
                    'ft': _cs(trees.format_label(p0, always_gf=True)),
                    'tf': _cs(trees.format_label(p0, always_label=True)),
                    'tt': _cs(trees.format_label(p0, always_label=True, always_gf=True))}
        ev('format', fmt)
        for comp, attr in (('cat', 'label'), ('gf', 'gf'), ('gap', 'gapindex'), ('co', 'coindex'),
                           ('hm', 'headmarker')):
            def dele(attr=attr):
                q = copy.copy(p0)
                setattr(q, attr, '')
                return {'out': _cs(trees.format_label(q))}
            ev('delete', dele, comp=comp, p=plog(p0))
    # the documented deletion idiom mutates the parsed label in place; a later parse of the same
    # string (same process) must not be affected by it
    def again():
        for attr in ('coindex', 'gapindex', 'headmarker', 'gf', 'label'):
            q = trees.parse_label(s)
            setattr(q, attr, '')
            trees.format_label(q)
        return plog(trees.parse_label(s))
    ev('parse_again', again, first=plog(p0) if p0 is not None else {})
    ev('parse_sep', lambda: plog(trees.parse_label(s, gf_separator='#')), reqsep=['#'])

    def fmt_sep():
        ps = trees.parse_label(s, gf_separator='#')
        return {'p': plog(ps), 'ff': _cs(trees.format_label(ps)), 'ft': _cs(trees.format_label(ps, always_gf=True)),
                'tf': _cs(trees.format_label(ps, always_label=True)),
                'tt': _cs(trees.format_label(ps, always_label=True, always_gf=True))}
    ev('format_sep', fmt_sep)
    return {'id': cid, 'origin': origin, 's': list(chars_), 'tag': 'parse', 'events': events}


def record_decor_case(cid, c, mods, origin='tlc'):
    trees = mods['trees']
    lab = ''.join(c['lab'])
    edge = ''.join(c['edge'])
    node = trees.Tree(trees.make_node_data())
    node.data['label'] = lab
    node.data['edge'] = edge
    node.data['head'] = c['head'] == 'T'
    node.data['split'] = c['split'] == 'T'
    node.data['block_number'] = c['bn']
    if c['inner']:
        kid = trees.Tree(trees.make_node_data())
        kid.data['num'] = 1
        kid.data['word'] = 'w'
        kid.parent = node
        node.children.append(kid)
    else:
        node.data['num'] = 1
        node.data['word'] = 'w'
    params = {o: True for o in c['o']}
    if c['gfsep'] != '-':
        # the value as the command line hands it over (`gf_separator:0` arrives as the integer 0)
        params['gf_separator'] = mods['misc'].options_dict(['gf_separator:%s' % ('' if c['gfsep'] == '~' else c['gfsep'])])['gf_separator'] \
            if 'misc' in mods else c['gfsep']
    ev = {'a': 'get_label', 'nd': {'lab': list(c['lab']), 'edge': list(c['edge']), 'head': c['head'],
                                   'split': c['split'], 'inner': 'T' if c['inner'] else 'F'},
          'opts': sorted(c['o']), 'gfsep': [c['gfsep']], 'bnchars': list(str(c['bn']))}
    try:
        ev['out'] = _cs(trees.get_label(node, **params))
        ev['res'] = 'ok'
    except Exception as ex:
        ev['res'] = 'exc'
        ev['exc'] = type(ex).__name__
    return {'id': cid, 'origin': origin, 's': list(c['lab']), 'tag': 'decorate', 'events': [ev]}

"""Registry of checks (one per property) and setup/selftest."""
import os
import subprocess
import sys

from . import core


def setup():
    """Offline setup: parse every specification module, byte-compile nothing
    (nothing to build or fetch)."""
    with core.Work('setup') as w:
        # Apa_* modules extend Apalache.tla, which is on apalache-mc's path only; Apalache parses them in the check
        mods = sorted(f[:-4] for f in os.listdir(core.SPEC) if f.endswith('.tla') and not f.startswith('Apa_'))
        bad = 0
        for m in mods:
            try:
                core.sany(w, m)
            except core.MachineryError as ex:
                print(str(ex)[:300] + ' ... ' + ' '.join(str(ex)[-1200:].split()), file=sys.stderr)
                bad += 1
        print('setup: %d modules parsed, %d failed' % (len(mods), bad))
        return 2 if bad else 0


def selftest():
    from . import selftest as st
    return st.run()


def _nav(prop, tier, seed, replay=None):
    from . import run_nav
    return run_nav.run(prop, tier, seed, replay)


def _labels(prop, tier, seed, replay=None):
    from . import run_labels
    return run_labels.run(prop, tier, seed, replay)


def _tf(prop, tier, seed, replay=None):
    from . import run_transform
    return run_transform.run(prop, tier, seed, replay)


def _trn(prop, tier, seed, replay=None):
    from . import run_transitions
    return run_transitions.run(prop, tier, seed, replay)


def _gr(prop, tier, seed, replay=None):
    from . import run_grammar
    return run_grammar.run(prop, tier, seed, replay)


def _split(prop, tier, seed, replay=None):
    from . import run_split, run_session
    import json
    if replay:
        doc = json.load(open(replay))
        if 'events' in doc.get('case', {}):
            return run_session.run(prop, tier, seed, replay)
        return run_split.run(prop, tier, seed, replay)
    rep = core.Report(prop, tier, seed)
    byid = run_split.run(prop, tier, seed, rep=rep, finish=False)
    byid2 = run_session.run(prop, tier, seed, rep=rep, finish=False)
    byid.update(byid2)
    return rep.finish(byid)


def _wr(prop, tier, seed, replay=None):
    from . import run_writers
    return run_writers.run(prop, tier, seed, replay)


def _rd(prop, tier, seed, replay=None):
    from . import run_readers
    return run_readers.run(prop, tier, seed, replay)


def _ses(prop, tier, seed, replay=None):
    from . import run_session
    return run_session.run(prop, tier, seed, replay)


def _proc(prop, tier, seed, replay=None):
    from . import run_process
    return run_process.run(prop, tier, seed, replay)


CHECKS = {
    'C18': _proc,
    'C03': _ses,
    'C01': _rd,
    'C02': _wr,
    'C17': _split,
    'C06': _gr, 'C09': _gr, 'C07': _gr, 'C08': _gr,
    'C10': _trn,
    'C11': _tf, 'C12': _tf, 'C05': _tf, 'C13': _tf, 'C14': _tf, 'C15': _tf, 'C04': _tf,
    'C20': _labels,
    'C19': _nav,
    'C16': _nav,
}

"""pytest plugin (suite recorder, DESIGN section 5): runs inside the repository's own test-suite
(`pytest -p harness.recorder_plugin`, PYTHONPATH=/verif) and records every call of a public
transformation as a one-step trace case (raw pointer graph before and after), appended as one JSON
line to $VERIF_RECORD_FILE.  The recorded traces are validated by Trace_Transform like any other."""
import json
import os

from harness import treeio


def _rows(fn, sid):
    rows = []
    try:
        with open(fn) as f:
            for ln in f:
                t = ln.strip().split()
                if len(t) >= 3 and int(t[0]) == sid:
                    rows.append({'idx': int(t[1]), 'word': t[2], 'tag': list(t[3]) if len(t) > 3 else []})
    except Exception:
        pass
    return sorted(rows, key=lambda r: r['idx'])


def _wrap(mod, name, out):
    fn = getattr(mod, name)
    counter = [0]

    def wrapper(tree, **params):
        atoms = treeio.Atoms(0)
        dmp = treeio.Dumper(atoms, lab_chars=True)
        try:
            g0 = dmp.dump(tree)
        except Exception:
            return fn(tree, **params)
        sid = tree.data.get('sid', 0) if isinstance(tree.data, dict) else 0
        flags = sorted(k for k in ('quiet', 'keepall', 'keepcoindex') if k in params)
        args = {'relc': list(params['relc']) if isinstance(params.get('relc'), str) else [],
                'bare': 'T' if 'bare_bin_labels' in params else 'F', 'pos': 0,
                'preset': params.get('mark_heads_preset', '~') if isinstance(params.get('mark_heads_preset', '~'), str) else '~',
                'keep': [list(k) for k in params['keep'].split(',')] if isinstance(params.get('keep'), str) else [],
                'flags': flags,
                'rows': _rows(params['terminalfile'], sid) if 'terminalfile' in params else [],
                'fop': params.get('filteroperator', '~'), 'fval': params.get('filtervalue', 0)
                if isinstance(params.get('filtervalue', 0), int) else 0}
        ev = {'a': name, 'args': args}
        try:
            ret = fn(tree, **params)
        except Exception as ex:
            ev.update({'res': 'exc', 'exc': type(ex).__name__})
            _emit(out, name, counter, g0, ev, dmp, tree)
            raise
        if ret is None:
            ev.update({'res': 'none', 'exc': '~', 'post': dmp.dump(None)})
        else:
            ev.update({'res': 'ok', 'exc': '~', 'post': dmp.dump(ret, also=[tree])})
        _emit(out, name, counter, g0, ev, dmp, tree)
        return ret
    wrapper.__name__ = fn.__name__
    wrapper.__doc__ = fn.__doc__
    setattr(mod, name, wrapper)


def _emit(out, name, counter, g0, ev, dmp, tree):
    counter[0] += 1
    n = len(dmp.objs)
    from harness.fam_transform import dead_record
    for g in [g0] + ([ev['post']] if 'post' in ev else []):
        while len(g['nodes']) < n:
            g['nodes'].append(dead_record(dmp))
    wc = sorted({(o.data.get('word'), tuple(treeio.chars(o.data.get('word')))) for o in dmp.objs
                 if isinstance(o.data, dict) and o.data.get('label') == '-NONE-' and isinstance(o.data.get('word'), str)})
    case = {'id': 'SUITE-%s-%d-%d' % (name, os.getpid(), counter[0]), 'origin': 'suite', 'init': g0, 'events': [ev],
            'wc': [[w, list(c)] for (w, c) in wc]}
    with open(out, 'a') as f:
        f.write(json.dumps(case) + '\n')


def pytest_configure(config):
    out = os.environ.get('VERIF_RECORD_FILE')
    if not out:
        return
    from trees import transform
    for fn in transform.TRANSFORMATIONS:
        _wrap(transform, fn.__name__, out)
    transform.TRANSFORMATIONS[:] = [getattr(transform, f.__name__) for f in transform.TRANSFORMATIONS]
    _wrap(transform, 'uncollapse_unary_chains', out)
